"""Seeded regressions: apply a recorded patch to a scratch copy of the analysed tree and re-run a check on it.

Used by the thorough tier (checker self-validation) and by tools/seed_matrix.py.
The scratch copy lives under a fresh temp directory outside /repo and /verif and is removed
(with nothing else left behind: cargo output goes to /verif/.cache/target) before returning.
"""
import importlib
import json
import os
import shutil
import subprocess
import sys
import tempfile

import facts
import common

VERIF = common.VERIF
SEEDED = os.path.join(VERIF, "seeded")


def all_seeds():
    out = []
    if not os.path.isdir(SEEDED):
        return out
    for d in sorted(os.listdir(SEEDED)):
        p = os.path.join(SEEDED, d)
        if os.path.isfile(os.path.join(p, "patch.diff")) and os.path.isfile(os.path.join(p, "meta.json")):
            m = json.load(open(os.path.join(p, "meta.json")))
            m["_dir"] = p
            m["_id"] = d
            out.append(m)
    return out


def seeds_for(prop):
    return [m for m in all_seeds() if prop in m.get("detected_by", [])]


def scratch_copy(repo):
    """copy of the analysed tree's build inputs (working tree state, not HEAD)"""
    base = tempfile.mkdtemp(prefix="verif-seed.", dir=os.environ.get("VERIF_TMP") or tempfile.gettempdir())
    dst = os.path.join(base, "repo")
    os.makedirs(dst)
    for name in ("src", "build", "map", "Cargo.toml", "Cargo.lock", "build.rs"):
        s = os.path.join(repo, name)
        if os.path.isdir(s):
            shutil.copytree(s, os.path.join(dst, name), symlinks=True)
        elif os.path.isfile(s):
            shutil.copy2(s, os.path.join(dst, name))
    return base, dst


def apply_patch(dst, patch):
    """git apply works on a plain directory; only build inputs are copied, so restrict to them"""
    r = subprocess.run(["git", "apply", "--whitespace=nowarn", "--include=src/*", "--include=build/*",
                        "--include=map/*", "--include=Cargo.*", patch],
                       cwd=dst, stdout=subprocess.PIPE, stderr=subprocess.STDOUT, text=True)
    if r.returncode == 0:
        return True, ""
    return False, r.stdout[-400:]


def run_on_seed(seed, props, repo):
    """-> {prop: (rc, [violated instance dicts])} or {'_error': str}"""
    base, dst = scratch_copy(repo)
    old = os.environ.get("VERIF_SCRATCH_RUN")
    os.environ["VERIF_SCRATCH_RUN"] = "1"
    try:
        ok, err = apply_patch(dst, os.path.join(seed["_dir"], "patch.diff"))
        if not ok:
            return {"_error": "patch does not apply: " + err}
        try:
            path, _ = facts.ensure_facts(dst, quiet=True)
        except SystemExit:
            return {"_error": "seeded tree does not build"}
        db = facts.DB(path)
        db.repo = dst
        res = {}
        for prop in props:
            mod = importlib.import_module("props." + prop.lower())
            try:
                rep = mod.run(db, "quick")
                bad = [i for i in rep.instances if not i["ok"]]
                if not bad and rep.broken:
                    res[prop] = (2, [{"rule": "floor", "key": rep.broken[0], "loc": "", "detail": "cannot decide"}])
                else:
                    res[prop] = (1 if bad else 0, bad)
            except facts.MissingAnchor as e:
                res[prop] = (2, [{"rule": "anchor", "key": str(e), "loc": "", "detail": "missing anchor"}])
            except common.Broken as e:
                res[prop] = (2, [{"rule": "floor", "key": str(e), "loc": "", "detail": "cannot decide"}])
            except Exception as e:
                res[prop] = (2, [{"rule": "internal", "key": repr(e)[:200], "loc": "", "detail": "cannot decide"}])
        return res
    finally:
        shutil.rmtree(base, ignore_errors=True)
        if old is None:
            os.environ.pop("VERIF_SCRATCH_RUN", None)
        else:
            os.environ["VERIF_SCRATCH_RUN"] = old


def thorough_replay(prop, rep, repo):
    """Self-validation for the thorough tier.  Returns the number of seeds that apply, build and are NOT detected."""
    results = []
    missed = 0
    clean_bad = set(i["rule"] + "|" + i["key"] for i in rep.instances if not i["ok"])
    for seed in seeds_for(prop):
        r = run_on_seed(seed, [prop], repo)
        if "_error" in r:
            results.append({"seed": seed["_id"], "status": "skipped", "reason": r["_error"]})
            continue
        rc, bad = r[prop]
        new = [b for b in bad if (b["rule"] + "|" + b["key"]) not in clean_bad]
        if rc == 1 and new:
            results.append({"seed": seed["_id"], "status": "detected",
                            "by": sorted(set(b["rule"] for b in new)),
                            "first": "%s at %s: %s" % (new[0]["rule"], new[0]["loc"], new[0]["detail"][:200])})
        elif rc == 2:
            results.append({"seed": seed["_id"], "status": "cannot-decide", "reason": bad[0]["key"][:200]})
            missed += 1
        else:
            results.append({"seed": seed["_id"], "status": "MISSED"})
            missed += 1
    rep.extra["seed_replay"] = results
    rep.note("thorough: %d seeded regressions replayed on a scratch copy of the analysed tree: %d detected, %d skipped, %d missed" % (
        len(results), sum(1 for r in results if r["status"] == "detected"),
        sum(1 for r in results if r["status"] == "skipped"), missed))
    for r in results:
        print("SEED %s: %s %s" % (r["seed"], r["status"], r.get("first") or r.get("reason") or ""))
    return missed


def auto_mutants(prop, rep, repo, budget=None):
    """thorough tier, second part of the checker self-validation: a few syntactic mutants (operator flips, off-by-one,
    dropped negation) generated inside the line ranges that the property's own record names as its mechanism are applied
    to a scratch copy and the check is run on each.  The detection ratio goes into the evidence; nothing here can raise
    a VIOLATION on the analysed tree (a mutant the check misses may be an equivalent mutant or one the test suite catches)."""
    import importlib.util
    budget = int(os.environ.get("VERIF_AUTOMUT", "6") if budget is None else budget)
    if budget <= 0:
        return
    spec = importlib.util.spec_from_file_location("mutsweep", os.path.join(VERIF, "tools", "mutsweep.py"))
    ms = importlib.util.module_from_spec(spec)
    spec.loader.exec_module(ms)
    muts = list(ms.mutants(prop, repo))
    if not muts:
        rep.note("thorough: no auto-mutants could be generated for %s" % prop)
        return
    step = max(1, len(muts) // budget)
    chosen = muts[::step][:budget]
    mod = importlib.import_module("props." + prop.lower())
    out = []
    old = os.environ.get("VERIF_SCRATCH_RUN")
    os.environ["VERIF_SCRATCH_RUN"] = "1"
    try:
        for m in chosen:
            base, dst = scratch_copy(repo)
            try:
                pth = os.path.join(dst, m["file"])
                lines = open(pth).read().split("\n")
                lines[m["line"] - 1] = m["_new_full"]
                open(pth, "w").write("\n".join(lines))
                try:
                    path, _ = facts.ensure_facts(dst, quiet=True)
                except SystemExit:
                    out.append({"mutant": "%s:%d %s" % (m["file"], m["line"], m["new"][:100]), "status": "does-not-build"})
                    continue
                db = facts.DB(path)
                db.repo = dst
                try:
                    r2 = mod.run(db, "quick")
                    bad = [i for i in r2.instances if not i["ok"]]
                    out.append({"mutant": "%s:%d %s" % (m["file"], m["line"], m["new"][:100]), "status": "detected" if bad else "missed",
                                "by": sorted(set(i["rule"] for i in bad))[:3]})
                except (facts.MissingAnchor, common.Broken) as e:
                    out.append({"mutant": "%s:%d %s" % (m["file"], m["line"], m["new"][:100]), "status": "cannot-decide", "by": [str(e)[:100]]})
            finally:
                shutil.rmtree(base, ignore_errors=True)
    finally:
        if old is None:
            os.environ.pop("VERIF_SCRATCH_RUN", None)
        else:
            os.environ["VERIF_SCRATCH_RUN"] = old
    rep.extra["auto_mutants"] = out
    n_det = sum(1 for o in out if o["status"] == "detected")
    n_build = sum(1 for o in out if o["status"] != "does-not-build")
    rep.note("thorough: %d auto-mutants in the property's anchored code (%d build): %d detected, %d missed (missed ones may be equivalent or test-visible)" % (
        len(out), n_build, n_det, sum(1 for o in out if o["status"] == "missed")))
    for o in out:
        print("AUTOMUT %s: %s %s" % (o["status"], o["mutant"], o.get("by", "")))
