"""Reporting: rule instances, violations, known findings, evidence files."""
import json
import os
import sys
import time

VERIF = os.path.dirname(os.path.dirname(os.path.abspath(__file__)))


class Broken(Exception):
    """the machinery cannot decide (missing anchor, floor not met) -> exit 2"""


class Report:
    def __init__(self, prop, tier, explanation, rule_text):
        self.prop = prop
        self.tier = tier
        self.explanation = explanation
        self.rule_text = rule_text
        self.t0 = time.time()
        self.instances = []      # dicts: rule,key,loc,ok,detail
        self.analysed_fns = set()
        self.sites = 0           # raw sites inspected (evaluations)
        self.notes = []
        self.rules = {}          # rule name -> description
        self.extra = {}
        self.trusted = ["rustc nightly front end (HIR type check, MIR construction at mir-opt-level=0)",
                        "engine/driver fact extractor", "python rule modules under engine/"]
        self.assumptions = []
        self.broken = []         # floors not met: reported as CHECK-BROKEN (exit 2) unless a violation was found as well

    # -- recording
    def rule(self, name, text):
        self.rules[name] = text

    def fn(self, f):
        self.analysed_fns.add(f.id if hasattr(f, "id") else f)

    def site(self, n=1):
        self.sites += n

    def ok(self, rule, key, loc, detail=""):
        self.instances.append({"rule": rule, "key": key, "loc": loc, "ok": True, "detail": detail})

    def bad(self, rule, key, loc, detail):
        self.instances.append({"rule": rule, "key": key, "loc": loc, "ok": False, "detail": detail})

    def check(self, cond, rule, key, loc, detail_ok="", detail_bad=""):
        if cond:
            self.ok(rule, key, loc, detail_ok)
        else:
            self.bad(rule, key, loc, detail_bad or detail_ok)
        return cond

    def floor(self, what, count, minimum):
        """fail closed if fewer instances than confirmed by hand on the pinned tree.  The failure is reported when the run
        finishes (exit 2), so that rules evaluated later can still report a violation (exit 1) on the same tree."""
        if count < minimum:
            self.broken.append("floor not met for %s: found %d, confirmed minimum %d" % (what, count, minimum))
            self.notes.append("FLOOR NOT MET %s: %d < %d" % (what, count, minimum))
            return False
        self.notes.append("floor %s: %d >= %d" % (what, count, minimum))
        return True

    def note(self, s):
        self.notes.append(s)

    def absorb(self, other, rules=None, why=""):
        """take over the rule instances of another property's report (rules shared between properties: the other
        property's structural clauses are necessary conditions of this one as well).  Instances already present
        (same rule and key) are not duplicated."""
        have = set((i["rule"], i["key"]) for i in self.instances)
        n = 0
        for r, t in other.rules.items():
            if rules is None or r in rules:
                self.rules.setdefault(r, t + (" (shared with %s%s)" % (other.prop, ": " + why if why else "")))
        for i in other.instances:
            if rules is not None and i["rule"] not in rules:
                continue
            if (i["rule"], i["key"]) in have:
                continue
            have.add((i["rule"], i["key"]))
            self.instances.append(dict(i))
            n += 1
        self.analysed_fns |= other.analysed_fns
        self.sites += other.sites
        self.notes.append("shared with %s: %d rule instances%s" % (other.prop, n, " (%s)" % why if why else ""))
        for a in other.assumptions:
            if a not in self.assumptions:
                self.assumptions.append(a)
        for b in other.broken:
            self.broken.append("(%s) %s" % (other.prop, b))
        return n

    # -- finishing
    def finish(self):
        known = load_known()
        kf = {(k["property"], k["key"]): k for k in known.get("findings", [])}
        viol = []
        knownhits = []
        seen_keys = set()
        for inst in self.instances:
            fullkey = inst["rule"] + "|" + inst["key"]
            if fullkey in seen_keys:
                # keys must be unique: make them so deterministically
                n = 2
                while fullkey + "#%d" % n in seen_keys:
                    n += 1
                fullkey = fullkey + "#%d" % n
            seen_keys.add(fullkey)
            inst["fullkey"] = fullkey
            if not inst["ok"]:
                if (self.prop, fullkey) in kf:
                    knownhits.append((inst, kf[(self.prop, fullkey)]))
                else:
                    viol.append(inst)
        scratch = bool(os.environ.get("VERIF_SCRATCH_RUN"))
        vdir = os.path.join(VERIF, "evidence", "scratch" if scratch else "violations")
        os.makedirs(vdir, exist_ok=True)
        # clear old replay files of this property
        for f in os.listdir(vdir):
            if f.startswith(self.prop + "-"):
                os.remove(os.path.join(vdir, f))
        for inst, k in knownhits:
            print("KNOWN-FINDING: property=%s %s: %s (%s)" % (self.prop, inst["fullkey"], k.get("what", inst["detail"]), inst["loc"]))
        for i, inst in enumerate(viol):
            path = os.path.join(vdir, "%s-%d.json" % (self.prop, i))
            with open(path, "w") as f:
                json.dump({"property": self.prop, "rule": inst["rule"], "key": inst["fullkey"], "loc": inst["loc"],
                           "detail": inst["detail"], "rule_text": self.rules.get(inst["rule"], "")}, f, indent=1)
            print("VIOLATION property=%s replay=%s" % (self.prop, path))
            print("  rule %s at %s: %s [%s]" % (inst["rule"], inst["loc"], inst["detail"], inst["fullkey"]))
        n_obl = len(self.instances)
        n_ok = sum(1 for i in self.instances if i["ok"])
        distinct = len(seen_keys)
        samples = []
        per_rule = {}
        for inst in self.instances:
            per_rule.setdefault(inst["rule"], []).append(inst)
        for r, lst in sorted(per_rule.items()):
            for inst in lst[:3]:
                samples.append({"rule": r, "instance": inst["fullkey"], "where": inst["loc"],
                                "verdict": "holds" if inst["ok"] else "violated", "detail": inst["detail"][:300]})
        ev = {
            "property_id": self.prop,
            "tier": self.tier,
            "seed": int(os.environ.get("VERIF_SEED", "0") or 0),
            "level": "other",
            "coverage": {
                "explanation": self.explanation,
                "rule": self.rule_text,
                "rules": self.rules,
                "obligations": n_obl,
                "discharged": n_ok,
                "evaluations": max(self.sites, n_obl),
                "distinct_nontrivial": distinct,
                "samples": samples,
                "per_rule_counts": {r: {"instances": len(l), "hold": sum(1 for i in l if i["ok"])} for r, l in sorted(per_rule.items())},
                "analysed_functions": len(self.analysed_fns),
                "analysed_function_names": sorted(self.analysed_fns)[:400],
                "known_findings_hit": [i["fullkey"] for i, _ in knownhits],
                "notes": self.notes,
                "checker_cmd": "./check %s --tier %s" % (self.prop, self.tier),
                "trusted_base": self.trusted,
                "exhaustive": False,
            },
            "assumptions": self.assumptions,
            "wall_s": round(time.time() - self.t0, 2),
            "violations": len(viol),
        }
        ev["coverage"].update(self.extra)
        os.makedirs(os.path.join(VERIF, "evidence"), exist_ok=True)
        evpath = os.path.join(VERIF, "evidence", "scratch", self.prop + ".json") if scratch else os.path.join(VERIF, "evidence", self.prop + ".json")
        with open(evpath, "w") as f:
            json.dump(ev, f, indent=1)
        print("%s: %d rule instances, %d hold, %d known findings, %d violations; %d functions analysed (%.1fs)" % (
            self.prop, n_obl, n_ok, len(knownhits), len(viol), len(self.analysed_fns), time.time() - self.t0))
        if viol:
            return 1
        if self.broken:
            for b in self.broken:
                print("CHECK-BROKEN property=%s %s" % (self.prop, b))
            return 2
        return 0


def load_known():
    p = os.path.join(VERIF, "known_findings.json")
    if os.path.exists(p):
        return json.load(open(p))
    return {"findings": [], "fixed": []}
