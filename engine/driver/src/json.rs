// minimal JSON writer (no dependencies)
pub enum J {
    Null,
    B(bool),
    N(usize),
    S(String),
    Raw(String),
    Arr(Vec<J>),
    Obj(Vec<(&'static str, J)>),
}

impl J {
    pub fn s(x: &str) -> J { J::S(x.to_string()) }
    pub fn n(x: usize) -> J { J::N(x) }
    pub fn b(x: bool) -> J { J::B(x) }
    pub fn obj(v: Vec<(&'static str, J)>) -> J { J::Obj(v) }

    pub fn write(&self, out: &mut String) {
        match self {
            J::Null => out.push_str("null"),
            J::B(b) => out.push_str(if *b { "true" } else { "false" }),
            J::N(n) => out.push_str(&n.to_string()),
            J::Raw(s) => out.push_str(s),
            J::S(s) => esc(s, out),
            J::Arr(a) => {
                out.push('[');
                for (i, x) in a.iter().enumerate() {
                    if i > 0 { out.push(','); }
                    x.write(out);
                }
                out.push(']');
            }
            J::Obj(o) => {
                out.push('{');
                for (i, (k, x)) in o.iter().enumerate() {
                    if i > 0 { out.push(','); }
                    esc(k, out);
                    out.push(':');
                    x.write(out);
                }
                out.push('}');
            }
        }
    }
}

fn esc(s: &str, out: &mut String) {
    out.push('"');
    for c in s.chars() {
        match c {
            '"' => out.push_str("\\\""),
            '\\' => out.push_str("\\\\"),
            '\n' => out.push_str("\\n"),
            '\r' => out.push_str("\\r"),
            '\t' => out.push_str("\\t"),
            c if (c as u32) < 0x20 => out.push_str(&format!("\\u{:04x}", c as u32)),
            c => out.push(c),
        }
    }
    out.push('"');
}
