// truth-facts: rustc_private driver that dumps HIR + MIR facts of the `truth`
// crate as JSON lines.  Injected through RUSTC_WORKSPACE_WRAPPER; for any crate
// other than the one named in TRUTH_FACTS_CRATE (default "truth") it behaves
// exactly like rustc.
#![feature(rustc_private)]
#![allow(unused)]

extern crate rustc_abi;
extern crate rustc_ast;
extern crate rustc_driver;
extern crate rustc_hir;
extern crate rustc_interface;
extern crate rustc_middle;
extern crate rustc_session;
extern crate rustc_span;

use std::collections::HashMap;
use std::fmt::Write as _;

use rustc_driver::{Callbacks, Compilation};
use rustc_hir as hir;
use rustc_hir::def::{DefKind, Res};
use rustc_hir::def_id::{DefId, LocalDefId};
use rustc_interface::interface;
use rustc_middle::mir;
use rustc_middle::ty::{self, TyCtxt, TypingEnv};
use rustc_span::Span;

mod json;
use json::J;

struct Cb {
    out: String,
    want: String,
}

fn main() {
    let mut args: Vec<String> = std::env::args().collect();
    // RUSTC_WORKSPACE_WRAPPER passes the real rustc path as argv[1].
    if args.len() > 1 && (args[1].ends_with("rustc") || args[1].contains("/rustc")) {
        args.remove(1);
    }
    let out = std::env::var("TRUTH_FACTS_OUT").unwrap_or_default();
    let want = std::env::var("TRUTH_FACTS_CRATE").unwrap_or_else(|_| "truth".to_string());
    let mut cb = Cb { out, want };
    rustc_driver::run_compiler(&args, &mut cb);
}

impl Callbacks for Cb {
    fn after_analysis<'tcx>(&mut self, _c: &interface::Compiler, tcx: TyCtxt<'tcx>) -> Compilation {
        let name = tcx.crate_name(rustc_hir::def_id::LOCAL_CRATE).to_string();
        if name != self.want || self.out.is_empty() {
            return Compilation::Continue;
        }
        // only the lib target (bins of the same package have other crate names, but be safe)
        let crate_types = tcx.crate_types();
        if !crate_types.iter().any(|t| matches!(t, rustc_session::config::CrateType::Rlib)) {
            return Compilation::Continue;
        }
        let mut d = Dumper::new(tcx);
        d.run();
        let path = &self.out;
        let tmp = format!("{}.tmp.{}", path, std::process::id());
        std::fs::write(&tmp, d.buf.as_bytes()).expect("write facts");
        std::fs::rename(&tmp, path).expect("rename facts");
        Compilation::Continue
    }
}

struct Dumper<'tcx> {
    tcx: TyCtxt<'tcx>,
    buf: String,
    types: HashMap<String, usize>,
    type_list: Vec<String>,
}

impl<'tcx> Dumper<'tcx> {
    fn new(tcx: TyCtxt<'tcx>) -> Self {
        Dumper { tcx, buf: String::with_capacity(64 << 20), types: HashMap::new(), type_list: vec![] }
    }

    fn ty_id(&mut self, t: ty::Ty<'tcx>) -> usize {
        let s = ty::print::with_no_visible_paths!(ty::print::with_no_trimmed_paths!(t.to_string()));
        if let Some(&i) = self.types.get(&s) {
            return i;
        }
        let i = self.type_list.len();
        self.types.insert(s.clone(), i);
        self.type_list.push(s);
        i
    }

    fn path(&self, d: DefId) -> String {
        ty::print::with_no_visible_paths!(ty::print::with_no_trimmed_paths!(self.tcx.def_path_str(d)))
    }

    fn loc(&self, sp: Span) -> (String, usize, usize) {
        let sm = self.tcx.sess.source_map();
        let sp = sp.source_callsite();
        let lo = sm.lookup_char_pos(sp.lo());
        let hi = sm.lookup_char_pos(sp.hi());
        let f = match &lo.file.name {
            rustc_span::FileName::Real(r) => match r.local_path() {
                Some(p) => p.to_string_lossy().to_string(),
                None => format!("{:?}", r),
            },
            o => format!("{:?}", o),
        };
        (f, lo.line, hi.line)
    }

    fn line(&self, sp: Span) -> usize {
        let sm = self.tcx.sess.source_map();
        sm.lookup_char_pos(sp.source_callsite().lo()).line
    }

    fn macros(&self, sp: Span) -> Option<String> {
        if !sp.from_expansion() {
            return None;
        }
        let mut names = vec![];
        for e in sp.macro_backtrace() {
            match e.kind {
                rustc_span::ExpnKind::Macro(_, n) => names.push(n.to_string()),
                rustc_span::ExpnKind::Desugaring(k) => names.push(format!("desugar:{:?}", k)),
                rustc_span::ExpnKind::AstPass(_) => names.push("astpass".into()),
                rustc_span::ExpnKind::Root => {}
            }
        }
        Some(names.join(">"))
    }

    fn emit(&mut self, j: J) {
        j.write(&mut self.buf);
        self.buf.push('\n');
    }

    fn run(&mut self) {
        let tcx = self.tcx;
        // ---- ADTs
        for id in tcx.hir_crate_items(()).definitions() {
            let did = id.to_def_id();
            match tcx.def_kind(did) {
                DefKind::Struct | DefKind::Enum | DefKind::Union => self.dump_adt(did),
                DefKind::Impl { .. } => self.dump_impl(did),
                DefKind::Trait => self.dump_trait(did),
                _ => {}
            }
        }
        // ---- bodies
        let owners: Vec<LocalDefId> = tcx.hir_body_owners().collect();
        for ldid in owners {
            let did = ldid.to_def_id();
            let kind = tcx.def_kind(did);
            match kind {
                DefKind::Fn | DefKind::AssocFn | DefKind::Closure => {}
                DefKind::Static { .. } | DefKind::Const { .. } | DefKind::AssocConst { .. } => {
                    // data tables: HIR of the initialiser only
                    let sp = tcx.def_span(did);
                    let (file, l0, _) = self.loc(sp);
                    if file.starts_with("src/") || file.contains("/src/") && !file.contains("/out/") {
                        let body_hir = tcx.hir_body_owned_by(ldid);
                        let tr = tcx.typeck(ldid);
                        let h = self.expr(body_hir.value, tr);
                        let name = self.path(did);
                        self.emit(J::obj(vec![
                            ("k", J::s("static")),
                            ("id", J::s(&name)),
                            ("file", J::s(&file)),
                            ("line", J::n(l0)),
                            ("hir", h),
                        ]));
                    }
                    continue;
                }
                _ => continue,
            }
            let sp = tcx.def_span(did);
            let (file, l0, _) = self.loc(sp);
            let generated = !(file.starts_with("src/") || file.contains("/src/")) || file.contains("/build/") && file.contains("/out/");
            let name = self.path(did);
            if generated {
                // the LALRPOP output: keep only the action functions (where AST nodes are built)
                let last = name.rsplit("::").next().unwrap_or("");
                let keep = name.contains("__action") || tcx.def_kind(did) == DefKind::Closure && name.contains("__action");
                if !keep {
                    continue;
                }
            }
            self.dump_fn(ldid, generated);
        }
        // ---- type table
        let tl = std::mem::take(&mut self.type_list);
        let mut arr = vec![];
        for t in &tl {
            arr.push(J::s(t));
        }
        self.emit(J::obj(vec![("k", J::s("types")), ("t", J::Arr(arr))]));
    }

    fn dump_adt(&mut self, did: DefId) {
        let tcx = self.tcx;
        let adt = tcx.adt_def(did);
        let mut variants = vec![];
        for v in adt.variants() {
            let mut fields = vec![];
            for f in &v.fields {
                let t = tcx.type_of(f.did).instantiate_identity().skip_norm_wip();
                let tid = self.ty_id(t);
                fields.push(J::obj(vec![("n", J::s(&f.name.to_string())), ("ty", J::n(tid))]));
            }
            variants.push(J::obj(vec![
                ("n", J::s(&v.name.to_string())),
                ("ctor", J::s(&format!("{:?}", v.ctor_kind()))),
                ("fields", J::Arr(fields)),
            ]));
        }
        let (file, l0, _) = self.loc(tcx.def_span(did));
        let kind = if adt.is_enum() { "enum" } else if adt.is_struct() { "struct" } else { "union" };
        let p = self.path(did);
        self.emit(J::obj(vec![
            ("k", J::s("adt")),
            ("id", J::s(&p)),
            ("kind", J::s(kind)),
            ("file", J::s(&file)),
            ("line", J::n(l0)),
            ("variants", J::Arr(variants)),
        ]));
    }

    fn dump_trait(&mut self, did: DefId) {
        let tcx = self.tcx;
        let mut items = vec![];
        for it in tcx.associated_items(did).in_definition_order() {
            if matches!(it.kind, ty::AssocKind::Fn { .. }) {
                items.push(J::obj(vec![
                    ("n", J::s(&it.name().to_string())),
                    ("id", J::s(&self.path(it.def_id))),
                    ("default", J::b(it.defaultness(tcx).has_value())),
                ]));
            }
        }
        let p = self.path(did);
        self.emit(J::obj(vec![("k", J::s("trait")), ("id", J::s(&p)), ("items", J::Arr(items))]));
    }

    fn dump_impl(&mut self, did: DefId) {
        let tcx = self.tcx;
        let self_ty = tcx.type_of(did).instantiate_identity().skip_norm_wip();
        let self_s = ty::print::with_no_visible_paths!(ty::print::with_no_trimmed_paths!(self_ty.to_string()));
        let tr = if tcx.impl_is_of_trait(did) {
            let r = tcx.impl_trait_ref(did).instantiate_identity().skip_norm_wip();
            Some(self.path(r.def_id))
        } else { None };
        let mut items = vec![];
        for it in tcx.associated_items(did).in_definition_order() {
            if matches!(it.kind, ty::AssocKind::Fn { .. }) {
                let tid = it.trait_item_def_id().map(|d| self.path(d));
                items.push(J::obj(vec![
                    ("n", J::s(&it.name().to_string())),
                    ("id", J::s(&self.path(it.def_id))),
                    ("trait_item", match tid { Some(s) => J::s(&s), None => J::Null }),
                ]));
            }
        }
        let (file, l0, _) = self.loc(tcx.def_span(did));
        self.emit(J::obj(vec![
            ("k", J::s("impl")),
            ("self", J::s(&self_s)),
            ("trait", match tr { Some(s) => J::s(&s), None => J::Null }),
            ("file", J::s(&file)),
            ("line", J::n(l0)),
            ("items", J::Arr(items)),
        ]));
    }

    fn dump_fn(&mut self, ldid: LocalDefId, generated: bool) {
        let tcx = self.tcx;
        let did = ldid.to_def_id();
        let name = self.path(did);
        let (file, l0, l1) = self.loc(tcx.def_span(did));
        let is_closure = tcx.def_kind(did) == DefKind::Closure;
        let parent = if is_closure { Some(self.path(tcx.typeck_root_def_id(did))) } else { None };
        // full span of body
        let body_hir = tcx.hir_body_owned_by(ldid);
        let (_, _, bl1) = self.loc(body_hir.value.span);

        let mut fields: Vec<(&str, J)> = vec![
            ("k", J::s("fn")),
            ("id", J::s(&name)),
            ("file", J::s(&file)),
            ("line", J::n(l0)),
            ("end", J::n(bl1.max(l1))),
            ("closure", J::b(is_closure)),
            ("gen", J::b(generated)),
        ];
        if let Some(p) = parent {
            fields.push(("parent", J::s(&p)));
        }
        if !is_closure {
            let vis = tcx.visibility(did);
            fields.push(("pub", J::b(vis.is_public())));
            if let Some(ai) = tcx.opt_associated_item(did) {
                if let Some(t) = ai.trait_item_def_id() {
                    fields.push(("trait_item", J::s(&self.path(t))));
                }
                let cont = tcx.parent(did);
                if matches!(tcx.def_kind(cont), DefKind::Impl { .. }) {
                    let st = tcx.type_of(cont).instantiate_identity().skip_norm_wip();
                    fields.push(("impl_self", J::s(&ty::print::with_no_visible_paths!(ty::print::with_no_trimmed_paths!(st.to_string())))));
                }
            }
        }
        // ---- HIR
        if !is_closure {
            // closures are dumped inline in their parent's HIR
            let tr = tcx.typeck(ldid);
            let mut params = vec![];
            for p in body_hir.params {
                params.push(self.pat(p.pat, tr));
            }
            fields.push(("hparams", J::Arr(params)));
            let h = self.expr(body_hir.value, tr);
            fields.push(("hir", h));
        }
        // ---- MIR
        let body = tcx.optimized_mir(did);
        fields.push(("mir", self.mir_body(body, did)));
        self.emit(J::obj(fields));
    }

    // ================= HIR =================

    fn qpath_res(&self, qp: &hir::QPath<'tcx>, id: hir::HirId, tr: &'tcx ty::TypeckResults<'tcx>) -> (String, String) {
        let res = tr.qpath_res(qp, id);
        self.res_str(res)
    }

    fn res_str(&self, res: Res) -> (String, String) {
        match res {
            Res::Def(kind, did) => {
                let k = match kind {
                    DefKind::Ctor(of, _) => {
                        // report the variant / struct path rather than the ctor path
                        let p = self.tcx.parent(did);
                        return (format!("Ctor{:?}", of), self.path(p));
                    }
                    other => format!("{:?}", other),
                };
                (k, self.path(did))
            }
            Res::Local(id) => ("Local".into(), self.tcx.hir_name(id).to_string()),
            Res::SelfCtor(d) => ("SelfCtor".into(), self.path(d)),
            Res::SelfTyAlias { alias_to, .. } => ("SelfTy".into(), self.path(alias_to)),
            Res::SelfTyParam { .. } => ("SelfTyParam".into(), "Self".into()),
            Res::PrimTy(p) => ("Prim".into(), format!("{:?}", p)),
            other => ("Other".into(), format!("{:?}", other)),
        }
    }

    fn pat(&mut self, p: &'tcx hir::Pat<'tcx>, tr: &'tcx ty::TypeckResults<'tcx>) -> J {
        use hir::PatKind as P;
        match p.kind {
            P::Wild => J::obj(vec![("k", J::s("Wild"))]),
            P::Missing => J::obj(vec![("k", J::s("Missing"))]),
            P::Never => J::obj(vec![("k", J::s("Never"))]),
            P::Binding(_, _, ident, sub) => {
                let mut v = vec![("k", J::s("Bind")), ("n", J::s(&ident.to_string()))];
                if let Some(s) = sub {
                    v.push(("sub", self.pat(s, tr)));
                }
                J::obj(v)
            }
            P::Struct(ref qp, fs, rest) => {
                let (_, path) = self.qpath_res(qp, p.hir_id, tr);
                let mut arr = vec![];
                for f in fs {
                    arr.push(J::Arr(vec![J::s(&f.ident.to_string()), self.pat(f.pat, tr)]));
                }
                J::obj(vec![("k", J::s("Struct")), ("p", J::s(&path)), ("fs", J::Arr(arr)), ("rest", J::b(rest.is_some()))])
            }
            P::TupleStruct(ref qp, ps, ddpos) => {
                let (_, path) = self.qpath_res(qp, p.hir_id, tr);
                let arr = ps.iter().map(|q| self.pat(q, tr)).collect();
                J::obj(vec![
                    ("k", J::s("TS")),
                    ("p", J::s(&path)),
                    ("ps", J::Arr(arr)),
                    ("dd", match ddpos.as_opt_usize() { Some(n) => J::n(n), None => J::Null }),
                ])
            }
            P::Or(ps) => {
                let arr = ps.iter().map(|q| self.pat(q, tr)).collect();
                J::obj(vec![("k", J::s("Or")), ("ps", J::Arr(arr))])
            }
            P::Tuple(ps, ddpos) => {
                let arr = ps.iter().map(|q| self.pat(q, tr)).collect();
                J::obj(vec![
                    ("k", J::s("Tuple")),
                    ("ps", J::Arr(arr)),
                    ("dd", match ddpos.as_opt_usize() { Some(n) => J::n(n), None => J::Null }),
                ])
            }
            P::Box(q) => J::obj(vec![("k", J::s("Box")), ("p", self.pat(q, tr))]),
            P::Deref(q) => J::obj(vec![("k", J::s("Deref")), ("p", self.pat(q, tr))]),
            P::Ref(q, _, _) => J::obj(vec![("k", J::s("Ref")), ("p", self.pat(q, tr))]),
            P::Expr(pe) => self.pat_expr(pe, tr),
            P::Guard(q, e) => J::obj(vec![("k", J::s("Guard")), ("p", self.pat(q, tr)), ("g", self.expr(e, tr))]),
            P::Range(lo, hi, end) => {
                let lo = match lo { Some(e) => self.pat_expr(e, tr), None => J::Null };
                let hi = match hi { Some(e) => self.pat_expr(e, tr), None => J::Null };
                J::obj(vec![("k", J::s("Range")), ("lo", lo), ("hi", hi), ("end", J::s(&format!("{:?}", end)))])
            }
            P::Slice(a, m, b) => {
                let aa = a.iter().map(|q| self.pat(q, tr)).collect();
                let bb = b.iter().map(|q| self.pat(q, tr)).collect();
                J::obj(vec![
                    ("k", J::s("Slice")),
                    ("a", J::Arr(aa)),
                    ("m", match m { Some(q) => self.pat(q, tr), None => J::Null }),
                    ("b", J::Arr(bb)),
                ])
            }
            P::Err(_) => J::obj(vec![("k", J::s("Err"))]),
        }
    }

    fn pat_expr(&mut self, pe: &'tcx hir::PatExpr<'tcx>, tr: &'tcx ty::TypeckResults<'tcx>) -> J {
        match pe.kind {
            hir::PatExprKind::Lit { lit, negated } => {
                J::obj(vec![("k", J::s("Lit")), ("v", J::s(&lit_str(&lit))), ("neg", J::b(negated))])
            }
            hir::PatExprKind::Path(ref qp) => {
                let (kind, path) = self.qpath_res(qp, pe.hir_id, tr);
                J::obj(vec![("k", J::s("Path")), ("rk", J::s(&kind)), ("p", J::s(&path))])
            }
        }
    }

    fn block(&mut self, b: &'tcx hir::Block<'tcx>, tr: &'tcx ty::TypeckResults<'tcx>) -> Vec<(&'static str, J)> {
        let mut ss = vec![];
        for s in b.stmts {
            match s.kind {
                hir::StmtKind::Let(l) => {
                    let mut v = vec![("k", J::s("Let")), ("ln", J::n(self.line(s.span))), ("p", self.pat(l.pat, tr))];
                    if let Some(i) = l.init {
                        v.push(("i", self.expr(i, tr)));
                    }
                    if let Some(e) = l.els {
                        let bb = self.block(e, tr);
                        v.push(("els", J::obj(bb)));
                    }
                    ss.push(J::obj(v));
                }
                hir::StmtKind::Item(_) => {}
                hir::StmtKind::Expr(e) => ss.push(J::obj(vec![("k", J::s("Expr")), ("e", self.expr(e, tr))])),
                hir::StmtKind::Semi(e) => ss.push(J::obj(vec![("k", J::s("Semi")), ("e", self.expr(e, tr))])),
            }
        }
        let mut v = vec![("ss", J::Arr(ss))];
        if let Some(e) = b.expr {
            v.push(("e", self.expr(e, tr)));
        }
        v
    }

    fn expr(&mut self, e: &'tcx hir::Expr<'tcx>, tr: &'tcx ty::TypeckResults<'tcx>) -> J {
        use hir::ExprKind as E;
        // transparent wrappers
        if let E::DropTemps(inner) = e.kind {
            return self.expr(inner, tr);
        }
        let mut v: Vec<(&'static str, J)> = vec![];
        let ty = tr.expr_ty_opt(e);
        let kind_name: &'static str;
        match e.kind {
            E::ConstBlock(_) => { kind_name = "ConstBlock"; }
            E::Array(es) => {
                kind_name = "Array";
                v.push(("es", J::Arr(es.iter().map(|x| self.expr(x, tr)).collect())));
            }
            E::Call(f, args) => {
                kind_name = "Call";
                let mut done = false;
                if let E::Path(ref qp) = f.kind {
                    let (rk, p) = self.qpath_res(qp, f.hir_id, tr);
                    v.push(("rk", J::s(&rk)));
                    v.push(("f", J::s(&p)));
                    // generic args of the callee
                    if let Some(fty) = tr.expr_ty_opt(f) {
                        if let ty::FnDef(_, ga) = fty.kind() {
                            if !ga.is_empty() {
                                let s: Vec<J> = ga.iter().map(|a| J::s(&ty::print::with_no_visible_paths!(ty::print::with_no_trimmed_paths!(a.to_string())))).collect();
                                v.push(("ga", J::Arr(s)));
                            }
                        }
                    }
                    done = true;
                }
                if !done {
                    v.push(("fe", self.expr(f, tr)));
                }
                v.push(("a", J::Arr(args.iter().map(|x| self.expr(x, tr)).collect())));
            }
            E::MethodCall(seg, recv, args, _) => {
                kind_name = "MCall";
                v.push(("m", J::s(&seg.ident.to_string())));
                if let Some(d) = tr.type_dependent_def_id(e.hir_id) {
                    v.push(("f", J::s(&self.path(d))));
                }
                let ga = tr.node_args(e.hir_id);
                if !ga.is_empty() {
                    let s: Vec<J> = ga.iter().map(|a| J::s(&ty::print::with_no_visible_paths!(ty::print::with_no_trimmed_paths!(a.to_string())))).collect();
                    v.push(("ga", J::Arr(s)));
                }
                v.push(("r", self.expr(recv, tr)));
                v.push(("a", J::Arr(args.iter().map(|x| self.expr(x, tr)).collect())));
            }
            E::Use(x, _) => { kind_name = "Use"; v.push(("e", self.expr(x, tr))); }
            E::Tup(es) => {
                kind_name = "Tup";
                v.push(("es", J::Arr(es.iter().map(|x| self.expr(x, tr)).collect())));
            }
            E::Binary(op, l, r) => {
                kind_name = "Binary";
                v.push(("op", J::s(op.node.as_str())));
                if let Some(d) = tr.type_dependent_def_id(e.hir_id) {
                    v.push(("f", J::s(&self.path(d))));
                }
                v.push(("l", self.expr(l, tr)));
                v.push(("r", self.expr(r, tr)));
            }
            E::Unary(op, x) => {
                kind_name = "Unary";
                v.push(("op", J::s(op.as_str())));
                if let Some(d) = tr.type_dependent_def_id(e.hir_id) {
                    v.push(("f", J::s(&self.path(d))));
                }
                v.push(("e", self.expr(x, tr)));
            }
            E::Lit(l) => { kind_name = "Lit"; v.push(("v", J::s(&lit_str(&l)))); }
            E::Cast(x, _) => {
                kind_name = "Cast";
                v.push(("e", self.expr(x, tr)));
            }
            E::Type(x, _) => { kind_name = "Type"; v.push(("e", self.expr(x, tr))); }
            E::DropTemps(_) => unreachable!(),
            E::Let(l) => {
                kind_name = "LetE";
                v.push(("p", self.pat(l.pat, tr)));
                v.push(("i", self.expr(l.init, tr)));
            }
            E::If(c, t, el) => {
                kind_name = "If";
                v.push(("c", self.expr(c, tr)));
                v.push(("t", self.expr(t, tr)));
                if let Some(x) = el { v.push(("el", self.expr(x, tr))); }
            }
            E::Loop(b, _, src, _) => {
                kind_name = "Loop";
                v.push(("src", J::s(&format!("{:?}", src))));
                let bb = self.block(b, tr);
                v.push(("b", J::obj(bb)));
            }
            E::Match(s, arms, src) => {
                kind_name = "Match";
                let srcs = format!("{:?}", src);
                v.push(("src", J::s(srcs.split('(').next().unwrap_or(""))));
                if let Some(st) = tr.expr_ty_adjusted_opt(s) {
                    v.push(("st", J::n(self.ty_id(st))));
                }
                v.push(("s", self.expr(s, tr)));
                let mut aa = vec![];
                for a in arms {
                    let mut av = vec![("ln", J::n(self.line(a.span))), ("p", self.pat(a.pat, tr))];
                    if let Some(g) = a.guard { av.push(("g", self.expr(g, tr))); }
                    av.push(("b", self.expr(a.body, tr)));
                    aa.push(J::obj(av));
                }
                v.push(("arms", J::Arr(aa)));
            }
            E::Closure(c) => {
                kind_name = "Closure";
                let did = c.def_id.to_def_id();
                v.push(("def", J::s(&self.path(did))));
                let body = self.tcx.hir_body(c.body);
                let mut params = vec![];
                for p in body.params { params.push(self.pat(p.pat, tr)); }
                v.push(("ps", J::Arr(params)));
                v.push(("b", self.expr(body.value, tr)));
            }
            E::Block(b, _) => {
                kind_name = "Block";
                let bb = self.block(b, tr);
                v.extend(bb);
            }
            E::Assign(l, r, _) => {
                kind_name = "Assign";
                v.push(("l", self.expr(l, tr)));
                v.push(("r", self.expr(r, tr)));
            }
            E::AssignOp(op, l, r) => {
                kind_name = "AssignOp";
                v.push(("op", J::s(op.node.as_str())));
                if let Some(d) = tr.type_dependent_def_id(e.hir_id) {
                    v.push(("f", J::s(&self.path(d))));
                }
                v.push(("l", self.expr(l, tr)));
                v.push(("r", self.expr(r, tr)));
            }
            E::Field(x, id) => {
                kind_name = "Field";
                v.push(("n", J::s(&id.to_string())));
                v.push(("e", self.expr(x, tr)));
            }
            E::Index(x, i, _) => {
                kind_name = "Index";
                if let Some(d) = tr.type_dependent_def_id(e.hir_id) {
                    v.push(("f", J::s(&self.path(d))));
                }
                v.push(("e", self.expr(x, tr)));
                v.push(("i", self.expr(i, tr)));
            }
            E::Path(ref qp) => {
                kind_name = "Path";
                let (rk, p) = self.qpath_res(qp, e.hir_id, tr);
                v.push(("rk", J::s(&rk)));
                v.push(("p", J::s(&p)));
            }
            E::AddrOf(_, m, x) => {
                kind_name = "AddrOf";
                v.push(("mut", J::b(m.is_mut())));
                v.push(("e", self.expr(x, tr)));
            }
            E::Break(dest, x) => {
                kind_name = "Break";
                if let Some(x) = x { v.push(("e", self.expr(x, tr))); }
            }
            E::Continue(_) => { kind_name = "Continue"; }
            E::Ret(x) => {
                kind_name = "Ret";
                if let Some(x) = x { v.push(("e", self.expr(x, tr))); }
            }
            E::Become(x) => { kind_name = "Become"; v.push(("e", self.expr(x, tr))); }
            E::InlineAsm(_) => { kind_name = "Asm"; }
            E::OffsetOf(..) => { kind_name = "OffsetOf"; }
            E::Struct(qp, fs, tail) => {
                kind_name = "Struct";
                let (rk, p) = self.qpath_res(qp, e.hir_id, tr);
                v.push(("p", J::s(&p)));
                let mut arr = vec![];
                for f in fs {
                    arr.push(J::Arr(vec![J::s(&f.ident.to_string()), self.expr(f.expr, tr)]));
                }
                v.push(("fs", J::Arr(arr)));
                if let hir::StructTailExpr::Base(b) = tail {
                    v.push(("base", self.expr(b, tr)));
                }
            }
            E::Repeat(x, _) => { kind_name = "Repeat"; v.push(("e", self.expr(x, tr))); }
            E::Yield(x, _) => { kind_name = "Yield"; v.push(("e", self.expr(x, tr))); }
            E::UnsafeBinderCast(_, x, _) => { kind_name = "UBC"; v.push(("e", self.expr(x, tr))); }
            E::Err(_) => { kind_name = "Err"; }
        }
        let mut out: Vec<(&'static str, J)> = vec![("k", J::s(kind_name)), ("ln", J::n(self.line(e.span)))];
        if let Some(t) = ty {
            out.push(("ty", J::n(self.ty_id(t))));
            if t.is_never() {
                out.push(("never", J::b(true)));
            }
        }
        // adjusted type when it differs (auto-deref / auto-ref)
        if let Some(m) = self.macros(e.span) {
            out.push(("x", J::s(&m)));
        }
        out.extend(v);
        J::obj(out)
    }

    // ================= MIR =================

    fn place(&mut self, p: &mir::Place<'tcx>, body: &mir::Body<'tcx>) -> J {
        let tcx = self.tcx;
        if p.projection.is_empty() {
            return J::n(p.local.as_usize());
        }
        let mut proj = vec![];
        let mut pty = mir::PlaceTy::from_ty(body.local_decls[p.local].ty);
        for elem in p.projection.iter() {
            match elem {
                mir::ProjectionElem::Deref => proj.push(J::s("*")),
                mir::ProjectionElem::Field(f, _) => {
                    let mut name = format!("{}", f.as_usize());
                    let mut owner = String::new();
                    if let ty::Adt(adt, _) = pty.ty.kind() {
                        let vi = pty.variant_index.unwrap_or(rustc_abi::FIRST_VARIANT);
                        if adt.is_enum() || adt.is_struct() || adt.is_union() {
                            if let Some(v) = adt.variants().get(vi) {
                                if let Some(fd) = v.fields.get(f) {
                                    name = fd.name.to_string();
                                }
                                owner = if adt.is_enum() {
                                    format!("{}::{}", self.path(adt.did()), v.name)
                                } else {
                                    self.path(adt.did())
                                };
                            }
                        }
                    }
                    proj.push(J::Arr(vec![J::s("f"), J::s(&name), J::s(&owner)]));
                }
                mir::ProjectionElem::Index(l) => proj.push(J::Arr(vec![J::s("i"), J::n(l.as_usize())])),
                mir::ProjectionElem::ConstantIndex { offset, from_end, .. } => {
                    proj.push(J::Arr(vec![J::s("ci"), J::n(offset as usize), J::b(from_end)]))
                }
                mir::ProjectionElem::Subslice { .. } => proj.push(J::s("subslice")),
                mir::ProjectionElem::Downcast(name, vi) => {
                    let n = match name { Some(s) => s.to_string(), None => format!("{}", vi.as_usize()) };
                    proj.push(J::Arr(vec![J::s("d"), J::s(&n)]));
                }
                mir::ProjectionElem::OpaqueCast(_) => proj.push(J::s("opaque")),
                mir::ProjectionElem::UnwrapUnsafeBinder(_) => proj.push(J::s("unbind")),
            }
            pty = pty.projection_ty(tcx, elem);
        }
        J::obj(vec![("l", J::n(p.local.as_usize())), ("p", J::Arr(proj))])
    }

    fn operand(&mut self, o: &mir::Operand<'tcx>, body: &mir::Body<'tcx>, did: DefId) -> J {
        match o {
            mir::Operand::Copy(p) => J::obj(vec![("cp", self.place(p, body))]),
            mir::Operand::Move(p) => J::obj(vec![("mv", self.place(p, body))]),
            mir::Operand::Constant(c) => {
                let mut v = vec![];
                let t = c.const_.ty();
                if let ty::FnDef(fd, ga) = t.kind() {
                    v.push(("fn", J::s(&self.path(*fd))));
                } else {
                    let s = ty::print::with_no_visible_paths!(ty::print::with_no_trimmed_paths!(format!("{}", c.const_)));
                    let s = if s.len() > 200 { format!("{}…", &s.chars().take(200).collect::<String>()) } else { s };
                    v.push(("c", J::s(&s)));
                    if t.is_integral() || t.is_bool() || t.is_char() {
                        let env = TypingEnv::post_analysis(self.tcx, did);
                        if let Some(si) = c.const_.try_eval_scalar_int(self.tcx, env) {
                            let size = si.size();
                            let bits = si.to_bits(size);
                            let val: i128 = if t.is_signed() { si.to_int(size) } else { bits as i128 };
                            v.push(("iv", J::Raw(format!("{}", val))));
                        }
                    }
                }
                v.push(("ty", J::n(self.ty_id(t))));
                J::obj(v)
            }
            other => J::obj(vec![("other", J::s(&format!("{:?}", other)))]),
        }
    }

    fn mir_body(&mut self, body: &mir::Body<'tcx>, did: DefId) -> J {
        let tcx = self.tcx;
        let mut locals = vec![];
        for d in body.local_decls.iter() {
            locals.push(J::n(self.ty_id(d.ty)));
        }
        let mut names = vec![];
        for vdi in &body.var_debug_info {
            if let mir::VarDebugInfoContents::Place(p) = &vdi.value {
                names.push(J::Arr(vec![J::s(&vdi.name.to_string()), self.place(p, body)]));
            }
        }
        let mut blocks = vec![];
        for (bb, data) in body.basic_blocks.iter_enumerated() {
            let mut stmts = vec![];
            for st in &data.statements {
                match &st.kind {
                    mir::StatementKind::Assign(b) => {
                        let (pl, rv) = &**b;
                        let mut v = vec![("ln", J::n(self.line(st.source_info.span))), ("d", self.place(pl, body))];
                        if let Some(m) = self.macros(st.source_info.span) { v.push(("x", J::s(&m))); }
                        self.rvalue(rv, body, did, &mut v);
                        stmts.push(J::obj(v));
                    }
                    mir::StatementKind::SetDiscriminant { place, variant_index } => {
                        stmts.push(J::obj(vec![
                            ("ln", J::n(self.line(st.source_info.span))),
                            ("d", self.place(place, body)),
                            ("r", J::s("setdiscr")),
                            ("v", J::n(variant_index.as_usize())),
                        ]));
                    }
                    _ => {}
                }
            }
            let term = data.terminator();
            let sp = term.source_info.span;
            let mut t: Vec<(&'static str, J)> = vec![("ln", J::n(self.line(sp)))];
            if let Some(m) = self.macros(sp) { t.push(("x", J::s(&m))); }
            match &term.kind {
                mir::TerminatorKind::Goto { target } => { t.push(("k", J::s("goto"))); t.push(("t", J::n(target.as_usize()))); }
                mir::TerminatorKind::SwitchInt { discr, targets } => {
                    t.push(("k", J::s("switch")));
                    t.push(("d", self.operand(discr, body, did)));
                    let mut vals = vec![];
                    let mut tgts = vec![];
                    for (v, bbx) in targets.iter() {
                        vals.push(J::Raw(format!("{}", v)));
                        tgts.push(J::n(bbx.as_usize()));
                    }
                    tgts.push(J::n(targets.otherwise().as_usize()));
                    t.push(("v", J::Arr(vals)));
                    t.push(("t", J::Arr(tgts)));
                }
                mir::TerminatorKind::UnwindResume => t.push(("k", J::s("resume"))),
                mir::TerminatorKind::UnwindTerminate(_) => t.push(("k", J::s("terminate"))),
                mir::TerminatorKind::Return => t.push(("k", J::s("ret"))),
                mir::TerminatorKind::Unreachable => t.push(("k", J::s("unreachable"))),
                mir::TerminatorKind::Drop { place, target, unwind, .. } => {
                    t.push(("k", J::s("drop")));
                    t.push(("p", self.place(place, body)));
                    t.push(("t", J::n(target.as_usize())));
                    if let mir::UnwindAction::Cleanup(u) = unwind { t.push(("u", J::n(u.as_usize()))); }
                }
                mir::TerminatorKind::Call { func, args, destination, target, unwind, fn_span, .. } => {
                    t.push(("k", J::s("call")));
                    let fty = func.ty(body, tcx);
                    match fty.kind() {
                        ty::FnDef(fd, ga) => {
                            t.push(("f", J::s(&self.path(*fd))));
                            if !ga.is_empty() {
                                let s: Vec<J> = ga.iter().map(|a| J::s(&ty::print::with_no_visible_paths!(ty::print::with_no_trimmed_paths!(a.to_string())))).collect();
                                t.push(("ga", J::Arr(s)));
                            }
                            let env = TypingEnv::post_analysis(tcx, did);
                            if let Ok(Some(inst)) = ty::Instance::try_resolve(tcx, env, *fd, ga) {
                                let rd = inst.def_id();
                                if rd != *fd {
                                    t.push(("fr", J::s(&self.path(rd))));
                                }
                                if let ty::InstanceKind::Virtual(..) = inst.def {
                                    t.push(("virt", J::b(true)));
                                }
                            }
                        }
                        _ => {
                            t.push(("fo", self.operand(func, body, did)));
                            t.push(("fty", J::n(self.ty_id(fty))));
                        }
                    }
                    let a: Vec<J> = args.iter().map(|x| self.operand(&x.node, body, did)).collect();
                    t.push(("a", J::Arr(a)));
                    t.push(("d", self.place(destination, body)));
                    if let Some(tg) = target { t.push(("t", J::n(tg.as_usize()))); }
                    if let mir::UnwindAction::Cleanup(u) = unwind { t.push(("u", J::n(u.as_usize()))); }
                    t.push(("fl", J::n(self.line(*fn_span))));
                }
                mir::TerminatorKind::TailCall { .. } => t.push(("k", J::s("tailcall"))),
                mir::TerminatorKind::Assert { cond, expected, msg, target, unwind } => {
                    t.push(("k", J::s("assert")));
                    t.push(("c", self.operand(cond, body, did)));
                    t.push(("exp", J::b(*expected)));
                    let (mk, ops): (String, Vec<&mir::Operand<'tcx>>) = match &**msg {
                        mir::AssertKind::BoundsCheck { len, index } => ("bounds".into(), vec![len, index]),
                        mir::AssertKind::Overflow(op, a, b) => (format!("overflow:{:?}", op), vec![a, b]),
                        mir::AssertKind::OverflowNeg(a) => ("overflow:Neg".into(), vec![a]),
                        mir::AssertKind::DivisionByZero(a) => ("divzero".into(), vec![a]),
                        mir::AssertKind::RemainderByZero(a) => ("remzero".into(), vec![a]),
                        other => (format!("{:?}", other).chars().take(40).collect(), vec![]),
                    };
                    t.push(("msg", J::s(&mk)));
                    let o: Vec<J> = ops.into_iter().map(|x| self.operand(x, body, did)).collect();
                    t.push(("ops", J::Arr(o)));
                    t.push(("t", J::n(target.as_usize())));
                    if let mir::UnwindAction::Cleanup(u) = unwind { t.push(("u", J::n(u.as_usize()))); }
                }
                mir::TerminatorKind::FalseEdge { real_target, .. } => { t.push(("k", J::s("goto"))); t.push(("t", J::n(real_target.as_usize()))); }
                mir::TerminatorKind::FalseUnwind { real_target, .. } => { t.push(("k", J::s("goto"))); t.push(("t", J::n(real_target.as_usize()))); }
                other => { t.push(("k", J::s("other"))); }
            }
            let mut b = vec![("s", J::Arr(stmts)), ("t", J::obj(t))];
            if data.is_cleanup { b.push(("cleanup", J::b(true))); }
            blocks.push(J::obj(b));
        }
        J::obj(vec![
            ("argc", J::n(body.arg_count)),
            ("locals", J::Arr(locals)),
            ("names", J::Arr(names)),
            ("blocks", J::Arr(blocks)),
        ])
    }

    fn rvalue(&mut self, rv: &mir::Rvalue<'tcx>, body: &mir::Body<'tcx>, did: DefId, v: &mut Vec<(&'static str, J)>) {
        let tcx = self.tcx;
        match rv {
            mir::Rvalue::Use(o, ..) => { v.push(("r", J::s("use"))); v.push(("o", self.operand(o, body, did))); }
            mir::Rvalue::Repeat(o, _) => { v.push(("r", J::s("repeat"))); v.push(("o", self.operand(o, body, did))); }
            mir::Rvalue::Ref(_, bk, p) => {
                v.push(("r", J::s("ref")));
                v.push(("mut", J::b(matches!(bk, mir::BorrowKind::Mut { .. }))));
                v.push(("p", self.place(p, body)));
            }
            mir::Rvalue::ThreadLocalRef(_) => v.push(("r", J::s("tls"))),
            mir::Rvalue::RawPtr(_, p) => { v.push(("r", J::s("rawptr"))); v.push(("p", self.place(p, body))); }
            mir::Rvalue::Cast(kind, o, t) => {
                v.push(("r", J::s("cast")));
                let ks = format!("{:?}", kind);
                let ks = ks.split('(').next().unwrap_or("").to_string();
                v.push(("ck", J::s(&ks)));
                let from = o.ty(body, tcx);
                v.push(("from", J::n(self.ty_id(from))));
                v.push(("to", J::n(self.ty_id(*t))));
                v.push(("o", self.operand(o, body, did)));
            }
            mir::Rvalue::BinaryOp(op, b) => {
                v.push(("r", J::s("binop")));
                v.push(("op", J::s(&format!("{:?}", op))));
                let (a, c) = &**b;
                let at = a.ty(body, tcx);
                v.push(("oty", J::n(self.ty_id(at))));
                v.push(("a", self.operand(a, body, did)));
                v.push(("b", self.operand(c, body, did)));
            }
            mir::Rvalue::UnaryOp(op, o) => {
                v.push(("r", J::s("unop")));
                v.push(("op", J::s(&format!("{:?}", op))));
                v.push(("o", self.operand(o, body, did)));
            }
            mir::Rvalue::Discriminant(p) => { v.push(("r", J::s("discr"))); v.push(("p", self.place(p, body))); }
            mir::Rvalue::Aggregate(kind, ops) => {
                v.push(("r", J::s("agg")));
                match &**kind {
                    mir::AggregateKind::Array(_) => v.push(("ak", J::s("array"))),
                    mir::AggregateKind::Tuple => v.push(("ak", J::s("tuple"))),
                    mir::AggregateKind::Adt(adid, vi, _, _, _) => {
                        let adt = tcx.adt_def(*adid);
                        let var = &adt.variants()[*vi];
                        let p = if adt.is_enum() { format!("{}::{}", self.path(*adid), var.name) } else { self.path(*adid) };
                        v.push(("ak", J::s("adt")));
                        v.push(("adt", J::s(&p)));
                        let fnames: Vec<J> = var.fields.iter().map(|f| J::s(&f.name.to_string())).collect();
                        v.push(("fn", J::Arr(fnames)));
                    }
                    mir::AggregateKind::Closure(cd, _) => {
                        v.push(("ak", J::s("closure")));
                        v.push(("adt", J::s(&self.path(*cd))));
                    }
                    _ => v.push(("ak", J::s("other"))),
                }
                let o: Vec<J> = ops.iter().map(|x| self.operand(x, body, did)).collect();
                v.push(("ops", J::Arr(o)));
            }
            mir::Rvalue::CopyForDeref(p) => { v.push(("r", J::s("use"))); v.push(("o", J::obj(vec![("cp", self.place(p, body))]))); }
            other => { v.push(("r", J::s("other"))); }
        }
    }
}

fn lit_str(l: &hir::Lit) -> String {
    use rustc_ast::LitKind as L;
    match &l.node {
        L::Str(s, _) => format!("\"{}\"", s),
        L::ByteStr(b, _) => format!("b{:?}", b.as_byte_str()),
        L::CStr(b, _) => format!("c{:?}", b.as_byte_str()),
        L::Byte(b) => format!("b'{}'", *b as char),
        L::Char(c) => format!("'{}'", c),
        L::Int(n, _) => format!("{}", n),
        L::Float(s, _) => format!("{}", s),
        L::Bool(b) => format!("{}", b),
        L::Err(_) => "<err>".into(),
    }
}
