#!/usr/bin/env python3
"""hirbrief.py <fn substring> [max lines]: compact HIR tree of a function (developer aid)"""
import sys, os
sys.path.insert(0, os.path.join(os.path.dirname(os.path.abspath(__file__)), ".."))
import facts
path, _ = facts.ensure_facts('/repo')
db = facts.DB(path)
cands = [f for f in db.fns.values() if sys.argv[1] in f.id and not f.closure]
f = sorted(cands, key=lambda x: len(x.id))[0]
print(f.id, f.loc)
def brief(n, ind=0):
    if isinstance(n, dict):
        k = n.get('k')
        x = n.get('x', '')
        if 'panic' in x or 'FormatLiteral' in x or 'format_args' in x:
            print(' ' * ind + str(k) + ' <macro ' + x.split('>')[-1] + '>')
            return
        desc = ' '.join('%s=%s' % (a, n[a]) for a in ('f', 'p', 'v', 'n', 'rk', 'src', 'op', 'ln') if a in n and not isinstance(n[a], (dict, list)))
        print(' ' * ind + str(k) + ' ' + desc)
        for key, v in n.items():
            if isinstance(v, (dict, list)) and key not in ('ga',):
                if isinstance(v, list) and v and not isinstance(v[0], (dict, list)):
                    continue
                print(' ' * (ind + 1) + '.' + key)
                brief(v, ind + 2)
    elif isinstance(n, list):
        for x in n:
            brief(x, ind)
brief(f.hir)
