#!/usr/bin/env python3
"""developer helper: show.py <substring of fn id> [mir|hir|calls]"""
import json, os, sys
sys.path.insert(0, os.path.join(os.path.dirname(os.path.abspath(__file__)), ".."))
import facts

def opstr(o, db):
    if 'cp' in o or 'mv' in o:
        p = o.get('cp', o.get('mv'))
        return ('copy ' if 'cp' in o else 'move ') + plstr(p)
    if 'fn' in o: return 'fn ' + o['fn']
    if 'c' in o: return 'const %s' % o['c']
    return json.dumps(o)

def plstr(p):
    if isinstance(p, int): return '_%d' % p
    s = '_%d' % p['l']
    for e in p['p']:
        if e == '*': s = '(*%s)' % s
        elif isinstance(e, list) and e[0] == 'f': s += '.%s' % e[1]
        elif isinstance(e, list) and e[0] == 'd': s += ' as %s' % e[1]
        elif isinstance(e, list) and e[0] == 'i': s += '[_%d]' % e[1]
        else: s += '{%s}' % json.dumps(e)
    return s

def show_mir(f, db):
    m = f.mir
    print('fn', f.id, f.loc, 'argc', m['argc'])
    for n, p in m['names']: print('   name', n, '=', plstr(p))
    for i, t in enumerate(m['locals']): print('   _%d: %s' % (i, db.types[t]))
    for i, b in enumerate(m['blocks']):
        print('bb%d%s:' % (i, ' (cleanup)' if b.get('cleanup') else ''))
        for s in b['s']:
            r = s['r']
            d = plstr(s['d'])
            if r == 'use': rhs = opstr(s['o'], db)
            elif r == 'cast': rhs = '%s as %s (%s from %s)' % (opstr(s['o'], db), db.types[s['to']], s['ck'], db.types[s['from']])
            elif r == 'binop': rhs = '%s(%s, %s)' % (s['op'], opstr(s['a'], db), opstr(s['b'], db))
            elif r == 'unop': rhs = '%s(%s)' % (s['op'], opstr(s['o'], db))
            elif r == 'ref': rhs = '&%s%s' % ('mut ' if s['mut'] else '', plstr(s['p']))
            elif r == 'discr': rhs = 'discriminant(%s)' % plstr(s['p'])
            elif r == 'agg': rhs = '%s %s [%s]' % (s['ak'], s.get('adt', ''), ', '.join(opstr(o, db) for o in s['ops']))
            else: rhs = r + ' ' + json.dumps({k: v for k, v in s.items() if k not in ('ln', 'd', 'r')})
            print('    [%d] %s = %s%s' % (s['ln'], d, rhs, '   <%s>' % s['x'] if 'x' in s else ''))
        t = b['t']
        k = t['k']
        x = '   <%s>' % t['x'] if 'x' in t else ''
        if k == 'call':
            print('    [%d] %s = call %s%s(%s) -> %s unwind %s%s' % (t['ln'], plstr(t['d']), t.get('f') or opstr(t.get('fo'), db), (' ~> ' + t['fr']) if 'fr' in t else '', ', '.join(opstr(o, db) for o in t['a']), t.get('t'), t.get('u'), x))
            if 'ga' in t: print('         ga=', t['ga'])
        elif k == 'switch':
            print('    [%d] switch %s %s -> %s%s' % (t['ln'], opstr(t['d'], db), t['v'], t['t'], x))
        elif k == 'assert':
            print('    [%d] assert %s == %s (%s) -> %s%s' % (t['ln'], opstr(t['c'], db), t['exp'], t['msg'], t['t'], x))
        elif k == 'drop':
            print('    [%d] drop %s -> %s' % (t['ln'], plstr(t['p']), t['t']))
        else:
            print('    [%d] %s %s%s' % (t['ln'], k, t.get('t', ''), x))

def main():
    path, _ = facts.ensure_facts(os.environ.get('VERIF_REPO', '/repo'))
    db = facts.DB(path)
    pat = sys.argv[1]
    what = sys.argv[2] if len(sys.argv) > 2 else 'mir'
    fs = [f for f in db.fns.values() if pat in f.id]
    if what == 'list':
        for f in fs: print(f.id, f.loc)
        return
    for f in fs:
        if what == 'mir': show_mir(f, db)
        elif what == 'hir': print(f.id); print(json.dumps(f.hir, indent=1))
        elif what == 'calls':
            print(f.id)
            for i, t in f.calls(): print('  bb%d [%d] %s' % (i, t['ln'], facts.callee(t)), t.get('ga', ''))
if __name__ == '__main__': main()
