"""Fact extraction + fact database for the truth static checks.

ensure_facts(repo) builds (if necessary) the rustc_private driver, runs it over
/repo's *current working tree* under `cargo +nightly check --lib` and returns the
path of the JSONL fact file.  The fact file is cached by a hash of every input
of the build (src/, build/, map/, Cargo.toml, Cargo.lock) and of the driver
source, so that a changed tree is always re-analysed.
"""
import fcntl
import hashlib
import json
import os
import subprocess
import sys
import time

VERIF = os.path.dirname(os.path.dirname(os.path.abspath(__file__)))
DRIVER_DIR = os.path.join(VERIF, "engine", "driver")
CACHE = os.path.join(VERIF, ".cache")


def _hash_tree(repo):
    h = hashlib.sha256()
    roots = ["src", "build", "map", "Cargo.toml", "Cargo.lock"]
    for r in roots:
        p = os.path.join(repo, r)
        if os.path.isfile(p):
            h.update(r.encode())
            h.update(open(p, "rb").read())
        elif os.path.isdir(p):
            for dp, dn, fn in sorted(os.walk(p)):
                dn.sort()
                for f in sorted(fn):
                    fp = os.path.join(dp, f)
                    h.update(os.path.relpath(fp, repo).encode())
                    h.update(open(fp, "rb").read())
    for f in ("src/main.rs", "src/json.rs", "Cargo.toml"):
        h.update(open(os.path.join(DRIVER_DIR, f), "rb").read())
    return h.hexdigest()[:24]


def _sysroot():
    return subprocess.check_output(["rustc", "+nightly", "--print", "sysroot"], text=True).strip()


def build_driver():
    env = dict(os.environ, CARGO_NET_OFFLINE="true")
    r = subprocess.run(["cargo", "build", "--offline"], cwd=DRIVER_DIR, env=env,
                       stdout=subprocess.PIPE, stderr=subprocess.STDOUT, text=True)
    if r.returncode != 0:
        sys.stderr.write(r.stdout)
        raise SystemExit(2)
    return os.path.join(DRIVER_DIR, "target", "debug", "truth-facts")


def ensure_facts(repo="/repo", quiet=False, target_dir=None, cache_key_extra=""):
    os.makedirs(os.path.join(CACHE, "facts"), exist_ok=True)
    key = _hash_tree(repo) + cache_key_extra
    out = os.path.join(CACHE, "facts", key + ".jsonl")
    if os.path.exists(out) and os.path.getsize(out) > 1000:
        os.utime(out)
        return out, True
    # one extraction at a time per cargo target directory
    lock_name = "extract.lock" if target_dir is None else "extract-%s.lock" % hashlib.sha256(target_dir.encode()).hexdigest()[:12]
    lock = open(os.path.join(CACHE, lock_name), "w")
    fcntl.flock(lock, fcntl.LOCK_EX)
    try:
        if os.path.exists(out) and os.path.getsize(out) > 1000:
            return out, True
        t0 = time.time()
        drv = build_driver()
        tdir = target_dir or os.path.join(CACHE, "target")
        os.makedirs(tdir, exist_ok=True)
        # cargo's freshness cache would skip the wrapper: force `truth` to be re-checked
        fp = os.path.join(tdir, "debug", ".fingerprint")
        if os.path.isdir(fp):
            for d in os.listdir(fp):
                if d.startswith("truth-"):
                    subprocess.run(["rm", "-rf", os.path.join(fp, d)])
        env = dict(os.environ)
        env.update({
            "LD_LIBRARY_PATH": _sysroot() + "/lib",
            "RUSTFLAGS": "-Zmir-opt-level=0 -Awarnings",
            "RUSTC_WORKSPACE_WRAPPER": drv,
            "CARGO_TARGET_DIR": tdir,
            "CARGO_NET_OFFLINE": "true",
            "TRUTH_FACTS_OUT": out + ".part",
            "TRUTH_FACTS_CRATE": "truth",
        })
        env.pop("RUSTC_WRAPPER", None)
        if os.path.exists(out + ".part"):
            os.remove(out + ".part")
        r = subprocess.run(["cargo", "+nightly", "check", "--offline", "--locked", "--lib",
                            "--manifest-path", os.path.join(repo, "Cargo.toml")],
                           env=env, stdout=subprocess.PIPE, stderr=subprocess.STDOUT, text=True)
        if r.returncode != 0 or not os.path.exists(out + ".part"):
            sys.stderr.write(r.stdout[-6000:])
            sys.stderr.write("\nFACT EXTRACTION FAILED (the tree does not build, or the driver was skipped)\n")
            raise SystemExit(2)
        os.rename(out + ".part", out)
        if not quiet:
            sys.stderr.write("[facts] extracted %s in %.1fs\n" % (os.path.basename(out), time.time() - t0))
        # keep the cache small: drop all but the 24 newest fact files
        fdir = os.path.join(CACHE, "facts")
        fs = sorted((os.path.getmtime(os.path.join(fdir, f)), f) for f in os.listdir(fdir) if f.endswith(".jsonl"))
        for _, f in fs[:-24]:
            os.remove(os.path.join(fdir, f))
        return out, False
    finally:
        fcntl.flock(lock, fcntl.LOCK_UN)
        lock.close()


# --------------------------------------------------------------------------
# database
# --------------------------------------------------------------------------

class Fn:
    __slots__ = ("d", "id", "file", "line", "end", "closure", "gen", "parent", "hir", "mir",
                 "_succ", "_dom", "_pred", "db")

    def __init__(self, d, db):
        self.d = d
        self.db = db
        self.id = d["id"]
        self.file = d["file"]
        self.line = d["line"]
        self.end = d["end"]
        self.closure = d["closure"]
        self.gen = d["gen"]
        self.parent = d.get("parent")
        self.hir = d.get("hir")
        self.mir = d["mir"]
        self._succ = None
        self._dom = None
        self._pred = None

    def __repr__(self):
        return "<Fn %s>" % self.id

    @property
    def loc(self):
        return "%s:%d" % (self.file, self.line)

    # ---- MIR helpers
    @property
    def blocks(self):
        return self.mir["blocks"]

    def local_ty(self, l):
        return self.db.types[self.mir["locals"][l]]

    def succ(self, include_unwind=False):
        """normal (non-unwind) successors per block"""
        if self._succ is None or include_unwind:
            res = []
            for b in self.blocks:
                t = b["t"]
                k = t["k"]
                s = []
                if k == "goto":
                    s = [t["t"]]
                elif k == "switch":
                    s = list(t["t"])
                elif k in ("call", "drop", "assert"):
                    if "t" in t:
                        s = [t["t"]]
                if include_unwind and "u" in t:
                    s.append(t["u"])
                res.append(s)
            if include_unwind:
                return res
            self._succ = res
        return self._succ

    def pred(self):
        if self._pred is None:
            p = [[] for _ in self.blocks]
            for i, ss in enumerate(self.succ()):
                for s in ss:
                    p[s].append(i)
            self._pred = p
        return self._pred

    def reachable_from(self, start, avoid=(), succ=None):
        succ = succ or self.succ()
        seen = set()
        stack = [start] if start not in avoid else []
        while stack:
            b = stack.pop()
            if b in seen:
                continue
            seen.add(b)
            for s in succ[b]:
                if s not in seen and s not in avoid:
                    stack.append(s)
        return seen

    def dominators(self):
        """dom[b] = set of blocks dominating b (over normal edges, entry = 0)"""
        if self._dom is None:
            succ = self.succ()
            n = len(succ)
            reach = self.reachable_from(0)
            order = []
            seen = set()

            def dfs(r):
                st = [(r, iter(succ[r]))]
                seen.add(r)
                while st:
                    node, it = st[-1]
                    adv = False
                    for s in it:
                        if s not in seen:
                            seen.add(s)
                            st.append((s, iter(succ[s])))
                            adv = True
                            break
                    if not adv:
                        order.append(node)
                        st.pop()
            dfs(0)
            rpo = list(reversed(order))
            pred = self.pred()
            full = set(reach)
            dom = {b: set(full) for b in reach}
            dom[0] = {0}
            changed = True
            while changed:
                changed = False
                for b in rpo:
                    if b == 0:
                        continue
                    ps = [p for p in pred[b] if p in reach]
                    new = None
                    for p in ps:
                        new = set(dom[p]) if new is None else (new & dom[p])
                    new = (new or set()) | {b}
                    if new != dom[b]:
                        dom[b] = new
                        changed = True
            self._dom = dom
        return self._dom

    def calls(self):
        """yield (bb_index, terminator) for every call terminator"""
        for i, b in enumerate(self.blocks):
            if b["t"]["k"] == "call":
                yield i, b["t"]


def callee(t):
    """best-known callee path of a MIR call terminator"""
    return t.get("fr") or t.get("f") or ""


def op_local(o):
    """local index of an operand if it is a bare local (copy or move), else None"""
    if not isinstance(o, dict):
        return None
    p = o.get("cp", o.get("mv"))
    if isinstance(p, int):
        return p
    return None


def op_place(o):
    if not isinstance(o, dict):
        return None
    p = o.get("cp", o.get("mv"))
    if p is None:
        return None
    if isinstance(p, int):
        return {"l": p, "p": []}
    return p


def place_local(p):
    return p if isinstance(p, int) else p["l"]


def place_proj(p):
    return [] if isinstance(p, int) else p["p"]


class DB:
    def __init__(self, path):
        self.path = path
        self.fns = {}
        self.adts = {}
        self.impls = []
        self.traits = {}
        self.types = []
        self.statics = {}
        with open(path) as f:
            for line in f:
                d = json.loads(line)
                k = d["k"]
                if k == "fn":
                    self.fns[d["id"]] = Fn(d, self)
                elif k == "adt":
                    self.adts[d["id"]] = d
                elif k == "impl":
                    self.impls.append(d)
                elif k == "trait":
                    self.traits[d["id"]] = d
                elif k == "types":
                    self.types = d["t"]
                elif k == "static":
                    self.statics[d["id"]] = d
        self.children = {}
        for f in self.fns.values():
            if f.parent:
                self.children.setdefault(f.parent, []).append(f)
        self._callgraph = None
        self._trait_impls = None

    def ty(self, i):
        return self.types[i]

    def fn(self, id):
        f = self.fns.get(id)
        if f is None:
            raise MissingAnchor(id)
        return f

    def find(self, pred):
        return [f for f in self.fns.values() if pred(f)]

    def with_closures(self, f):
        """f and all closures nested in it"""
        out = [f]
        for c in self.children.get(f.id, []):
            out.append(c)
        return out

    def trait_impls(self):
        """trait method path -> [impl method paths] (local impls)"""
        if self._trait_impls is None:
            m = {}
            for im in self.impls:
                for it in im["items"]:
                    if it.get("trait_item"):
                        m.setdefault(it["trait_item"], []).append(it["id"])
            self._trait_impls = m
        return self._trait_impls

    def callgraph(self):
        """caller fn id -> set of callee ids (local functions only; trait-method calls are
        expanded to every local impl; closures are attributed to their parent *and* kept
        as nodes with an edge parent -> closure)."""
        if self._callgraph is None:
            ti = self.trait_impls()
            g = {}
            for f in self.fns.values():
                s = set()
                for _, t in f.calls():
                    for c in (t.get("f"), t.get("fr")):
                        if not c:
                            continue
                        if c in self.fns:
                            s.add(c)
                        for imp in ti.get(c, ()):
                            if imp in self.fns:
                                s.add(imp)
                # function items mentioned as values (fn pointers, closures passed along)
                for b in f.blocks:
                    for st in b["s"]:
                        for o in _stmt_operands(st):
                            fnn = o.get("fn") if isinstance(o, dict) else None
                            if fnn:
                                if fnn in self.fns:
                                    s.add(fnn)
                                for imp in ti.get(fnn, ()):
                                    if imp in self.fns:
                                        s.add(imp)
                    for o in b["t"].get("a", []):
                        fnn = o.get("fn") if isinstance(o, dict) else None
                        if fnn and fnn in self.fns:
                            s.add(fnn)
                for c in self.children.get(f.id, []):
                    s.add(c.id)
                g[f.id] = s
            self._callgraph = g
        return self._callgraph

    def precise_callgraph(self):
        """like callgraph() but a call that rustc resolved to one impl (`fr`) contributes only that edge"""
        if getattr(self, "_pcg", None) is None:
            ti = self.trait_impls()
            g = {}
            for f in self.fns.values():
                if f.gen:
                    continue
                s = set()
                for _, t in f.calls():
                    fr, c = t.get("fr"), t.get("f")
                    if fr and fr in self.fns:
                        s.add(fr)
                    elif c in self.fns:
                        s.add(c)
                    elif c in ti:
                        s.update(i for i in ti[c] if i in self.fns)
                for b in f.blocks:
                    for st in b["s"]:
                        for o in _stmt_operands(st):
                            fnn = o.get("fn") if isinstance(o, dict) else None
                            if fnn and fnn in self.fns:
                                s.add(fnn)
                    for o in b["t"].get("a", []):
                        fnn = o.get("fn") if isinstance(o, dict) else None
                        if fnn and fnn in self.fns:
                            s.add(fnn)
                for c in self.children.get(f.id, []):
                    s.add(c.id)
                g[f.id] = s
            self._pcg = g
        return self._pcg

    def recursive_sccs(self):
        """strongly connected components of precise_callgraph() that contain a cycle (iterative Tarjan)"""
        g = self.precise_callgraph()
        index, low, onst, st, out = {}, {}, set(), [], []
        ctr = 0
        for root in sorted(g):
            if root in index:
                continue
            work = [(root, iter(sorted(g[root])))]
            index[root] = low[root] = ctr
            ctr += 1
            st.append(root)
            onst.add(root)
            while work:
                v, it = work[-1]
                adv = False
                for w in it:
                    if w not in g:
                        continue
                    if w not in index:
                        index[w] = low[w] = ctr
                        ctr += 1
                        st.append(w)
                        onst.add(w)
                        work.append((w, iter(sorted(g[w]))))
                        adv = True
                        break
                    elif w in onst:
                        low[v] = min(low[v], index[w])
                if adv:
                    continue
                work.pop()
                if work:
                    u = work[-1][0]
                    low[u] = min(low[u], low[v])
                if low[v] == index[v]:
                    comp = []
                    while True:
                        w = st.pop()
                        onst.discard(w)
                        comp.append(w)
                        if w == v:
                            break
                    if len(comp) > 1 or v in g[v]:
                        out.append(sorted(comp))
        return out

    def reachable(self, roots):
        g = self.callgraph()
        seen = set()
        st = [r for r in roots if r in g]
        while st:
            x = st.pop()
            if x in seen:
                continue
            seen.add(x)
            st.extend(g.get(x, ()))
        return seen


def _stmt_operands(st):
    for k in ("o", "a", "b"):
        if k in st and isinstance(st[k], dict):
            yield st[k]
    for o in st.get("ops", []):
        yield o


class MissingAnchor(Exception):
    pass


# --------------------------------------------------------------------------
# HIR helpers
# --------------------------------------------------------------------------

_CHILD_KEYS = ("e", "l", "r", "c", "t", "el", "s", "i", "b", "fe", "base", "g")


def hir_children(n):
    """direct child expression nodes of a HIR expr node (in source order, approx.)"""
    if not isinstance(n, dict):
        return
    k = n.get("k")
    if k == "Match":
        yield n["s"]
        for a in n["arms"]:
            if "g" in a:
                yield a["g"]
            yield a["b"]
        return
    if k in ("Call",):
        if "fe" in n:
            yield n["fe"]
        for a in n["a"]:
            yield a
        return
    if k == "MCall":
        yield n["r"]
        for a in n["a"]:
            yield a
        return
    if k in ("Block",) or (k is None and "ss" in n):
        for s in n.get("ss", []):
            if s["k"] == "Let":
                if "i" in s:
                    yield s["i"]
                if "els" in s:
                    yield dict(s["els"], k="Block")
            else:
                yield s["e"]
        if "e" in n:
            yield n["e"]
        return
    if k == "Loop":
        yield dict(n["b"], k="Block")
        return
    if k == "Struct":
        for _, e in n["fs"]:
            yield e
        if "base" in n:
            yield n["base"]
        return
    if k in ("Tup", "Array"):
        for e in n["es"]:
            yield e
        return
    if k == "If":
        yield n["c"]
        yield n["t"]
        if "el" in n:
            yield n["el"]
        return
    if k == "Closure":
        yield n["b"]
        return
    if k == "Index":
        yield n["e"]
        yield n["i"]
        return
    if k == "LetE":
        yield n["i"]
        return
    for key in ("l", "r", "e"):
        if key in n and isinstance(n[key], dict):
            yield n[key]


def hir_walk(n):
    """pre-order walk over all expression nodes"""
    st = [n]
    while st:
        x = st.pop()
        if not isinstance(x, dict):
            continue
        yield x
        ch = list(hir_children(x))
        st.extend(reversed(ch))


def hir_calls(n):
    """resolved callee paths (Call / MCall / operator overloads) under n, in source order"""
    for x in hir_walk(n):
        k = x.get("k")
        if k in ("Call", "MCall") and x.get("f"):
            yield x["f"], x


def pat_paths(p):
    """all variant / struct paths mentioned in a pattern"""
    if not isinstance(p, dict):
        return
    k = p["k"]
    if k in ("Struct", "TS", "Path"):
        yield p["p"]
    if k == "Struct":
        for _, q in p["fs"]:
            yield from pat_paths(q)
    elif k in ("TS", "Or", "Tuple"):
        for q in p["ps"]:
            yield from pat_paths(q)
    elif k in ("Box", "Deref", "Ref", "Guard"):
        yield from pat_paths(p["p"])
    elif k == "Bind" and "sub" in p:
        yield from pat_paths(p["sub"])
    elif k == "Slice":
        for q in p["a"] + p["b"]:
            yield from pat_paths(q)


def pat_top_variants(p):
    """variant paths matched at the top level of a pattern (through refs / or-patterns /
    bindings); '_' for wildcard / binding-only patterns"""
    k = p["k"]
    if k in ("Struct", "TS", "Path"):
        return [p["p"]]
    if k == "Or":
        out = []
        for q in p["ps"]:
            out.extend(pat_top_variants(q))
        return out
    if k in ("Ref", "Box", "Deref", "Guard"):
        return pat_top_variants(p["p"])
    if k == "Bind":
        if "sub" in p:
            return pat_top_variants(p["sub"])
        return ["_"]
    if k == "Wild":
        return ["_"]
    if k == "Lit":
        return ["lit:" + ("-" if p.get("neg") else "") + p["v"]]
    if k == "Tuple":
        return ["tuple"]
    return [k]


def is_empty_block(n):
    """`{}` or `()`"""
    if n.get("k") == "Block" and not n.get("ss") and "e" not in n:
        return True
    if n.get("k") == "Tup" and not n.get("es"):
        return True
    return False
