"""C04 Any text input ends in success or a rendered diagnostic, never a crash (structural clauses)."""
import json
import os
import re
from common import Report, VERIF
from facts import hir_walk, op_local, op_place, place_local, place_proj
from rules import arms, visit, flow, optables

EXPLANATION = (
    "Static rules over everything reachable from the compile commands (call graph incl. dyn dispatch, closures, the "
    "LALRPOP parser actions).  R-DIVERGE: a match arm over a syntactic AST enum that ends in panic!/unreachable!/"
    "unimplemented! must be one of the audited (function, variant) pairs whose variant cannot reach that code; "
    "OpClass dispatches cover every class an operator can have.  R-PASS-ORDER: in each of the 6 compile pipelines the "
    "passes that later passes rely on (assign_languages < resolve_names < type_check < evaluate_const_vars < "
    "const_simplify < desugar_blocks < Lowerer::new, and a difficulty pass before lowering) dominate each other and "
    "their results are propagated with `?`.  R-LOWERER: no Lowerer (a panic bomb) is dropped on a normal path.  "
    "R-ERRFLAG: every locally created ErrorFlag reaches into_result on every normal path to the return (otherwise an "
    "error is printed but the command succeeds).  R-ERRFLOW: ErrorReported values are only made by the emitters; "
    "`.ignore()` is applied only to warning/info emissions (3 audited exceptions) and a warning emission is never "
    "returned as an error.  R-UNWRAP-TEXT: results of fallible text conversions are not unwrapped (audited "
    "exceptions).  R-ARITH: every panicking arithmetic (overflow / division Assert) on <= 32-bit operands in "
    "compile-reachable code is discharged by constant operands or is an audited site with its bound.  Decides these "
    "code-shape conditions; 'never panics for all byte strings', termination and stack depth are NOT decided.")
RULE = "instance = one diverging arm / pipeline order edge / Lowerer local / ErrorFlag local / emission / unwrap / arithmetic assert"

SYNTAX_ENUMS = ("ast::StmtKind", "ast::Expr", "ast::Item", "ast::StmtJumpKind", "ast::VarName", "ast::CallableName",
                "ast::CondKeyword", "ast::meta::Meta", "ast::TypeKeyword", "ast::PseudoArgKind", "ast::LabelPropertyKeyword",
                "ast::BreakContinueKeyword", "ast::CallAsyncKind", "ast::VarSigil", "ast::FuncQualifier")
PIPELINES = ["formats::anm::compile", "formats::std::compile_std", "formats::msg::compile", "formats::mission::compile",
             "formats::ecl::ecl_06::compile", "formats::ecl::ecl_10::compile"]
ORDER = [
    ("assign_languages", ("passes::resolution::assign_languages", "passes::resolution::AssignLanguagesOptions::run")),
    ("resolve_names", ("passes::resolution::resolve_names",)),
    ("type_check", ("passes::type_check::run",)),
    ("evaluate_const_vars", ("passes::evaluate_const_vars::run",)),
    ("const_simplify", ("passes::const_simplify::run",)),
    ("desugar_blocks", ("passes::desugar_blocks::run",)),
    ("Lowerer::new", ("llir::lower::Lowerer::<'a>::new",)),
]
DIFFICULTY = ("passes::resolution::compute_diff_label_masks", "passes::validate_difficulty::forbid_difficulty")
UNWRAP = ("core::option::Option::<T>::unwrap", "core::option::Option::<T>::expect", "core::result::Result::<T, E>::unwrap",
          "core::result::Result::<T, E>::expect")
PARSE = re.compile(r"^(core::str::<impl str>::parse|core::num::<impl \w+>::from_str_radix|core::char::methods::<impl char>::to_digit|"
                   r"core::convert::TryFrom::try_from|core::convert::TryInto::try_into|core::str::traits::FromStr::from_str|"
                   r"core::num::<impl \w+>::checked_\w+|alloc::string::String::from_utf8|core::str::converts::from_utf8|"
                   r"core::char::methods::<impl char>::from_u32|core::char::convert::from_u32)")
SMALL = ("i32", "u32", "i16", "u16", "u8", "i8")


def compile_reachable(db):
    roots = [f.id for f in db.fns.values() if re.search(r"cli_def::\w+_compile::run$", f.id)]
    roots += [f.id for f in db.fns.values() if re.search(r"::compile_from_ast$", f.id)]
    roots += [f.id for f in db.fns.values() if f.id.endswith("extend_from_mapfile") or f.id == "mapfile::Mapfile::load"]
    if len(roots) < 10:
        raise Exception("compile roots missing")
    return db.reachable(roots), roots


def load_table(name):
    return json.load(open(os.path.join(VERIF, "engine", "tables", name)))["entries"]


def root_fn(fid):
    return re.sub(r"(::\{closure#\d+\})+$", "", fid)


def run(db, tier):
    rep = Report("C04", tier, EXPLANATION, RULE)
    for r, t in (("R-DIVERGE", "a panicking match arm over a syntactic AST enum must be an audited impossible case"),
                 ("R-PASS-ORDER", "passes run in the order later passes rely on, in every compile pipeline"),
                 ("R-LOWERER", "Lowerer::finish is reached on every normal path (no normal-path drop of a Lowerer)"),
                 ("R-ERRFLAG", "a local ErrorFlag reaches into_result on every normal path to the return"),
                 ("R-ERRFLOW", "error reporting and exit status agree (who may create ErrorReported; ignore only on warnings)"),
                 ("R-UNWRAP-TEXT", "results of fallible text conversions are not unwrapped"),
                 ("R-ARITH", "panicking arithmetic on script-level integers is bounded or absent")):
        rep.rule(r, t)
    W, roots = compile_reachable(db)
    rep.floor("compile roots", len(roots), 10)
    rep.extra["compile_reachable_functions"] = len(W)
    in_scope = [f for f in db.fns.values() if (f.id in W or f.parent in W)]
    for f in in_scope:
        rep.fn(f)

    # ------------------------------------------------------------------ R-DIVERGE
    dtab = load_table("c04_diverge.json")
    used = set()
    n_div = 0
    for f in sorted(in_scope, key=lambda f: (f.file, f.line)):
        if f.closure or f.hir is None:
            continue
        for m in hir_walk(f.hir):
            if m.get("k") != "Match" or m.get("src") != "Normal" or "st" not in m:
                continue
            t = db.types[m["st"]].replace("&mut ", "").replace("&", "").strip()
            if t not in SYNTAX_ENUMS:
                continue
            for arm in m["arms"]:
                rep.site()
                p = arms.panics_at_tail(arm["b"])
                if not p or p.startswith("call:passes::const_simplify::uncaught_type_error"):
                    continue
                for v, _ in visit.variant_alternatives(arm["p"]):
                    n_div += 1
                    key = "%s|%s" % (f.id, v)
                    loc = "%s:%d" % (f.file, arm["ln"])
                    ent = dtab.get(key)
                    if ent:
                        used.add(key)
                        rep.ok("R-DIVERGE", key, loc, "%s arm for %s: audited: %s" % (p, v, ent["reason"]))
                    else:
                        rep.bad("R-DIVERGE", key, loc, "%s in the arm for %s of a match on %s: this variant can be built from source text and is not an audited impossible case" % (p, v, t))
    rep.floor("panicking arms over syntactic enums", n_div, 4)
    # OpClass dispatches
    T = optables.build(db)
    classes_bin = set(T.bin_class.values())
    for fid in (optables.F_BIN_CHECK, optables.F_BIN_TY):
        f = db.fn(fid)
        m = arms.first_match(f, db, optables.OPCLASS)
        tab = optables.expand(db, m, optables.OPCLASS)
        for c in sorted(classes_bin):
            arm = tab.get(c)
            ok = arm is not None and not arms.panics_at_tail(arm["b"])
            rep.check(ok, "R-DIVERGE", "%s|%s" % (fid, c), f.loc, "class %s of a binary operator has a real arm" % optables.short(c),
                      "binary operators of class %s fall into the unreachable!() arm" % c)

    # ------------------------------------------------------------------ R-PASS-ORDER
    for pid in PIPELINES:
        f = db.fn(pid)
        dom = f.dominators()
        pos = {}
        for name, callees in ORDER:
            bbs = [bi for bi, t in f.calls() if t.get("f") in callees]
            if bbs:
                pos[name] = bbs
        lowers = any(c.id for c in db.with_closures(f) if any(t.get("f", "").endswith("Lowerer::<'a>::lower_sub") for _, t in c.calls()))
        names = [n for n, _ in ORDER]
        if lowers:
            for n in names:
                rep.check(n in pos, "R-PASS-ORDER", "%s|calls|%s" % (pid, n), f.loc, "pipeline runs %s" % n,
                          "pipeline lowers code but never runs %s" % n)
        present = [n for n in names if n in pos]
        for a, b in zip(present, present[1:]):
            key = "%s|%s<%s" % (pid, a, b)
            ok = all(any(x in dom.get(y, ()) for x in pos[a]) for y in pos[b])
            rep.check(ok, "R-PASS-ORDER", key, "%s:%d" % (f.file, f.blocks[pos[b][0]]["t"]["ln"]),
                      "%s dominates %s" % (a, b), "%s can run without %s having run before it" % (b, a))
        # results of the Result-returning passes are propagated (`?`), not dropped
        d = flow.Defs(f)
        for n in present:
            if n == "Lowerer::new":
                continue
            for bi in pos[n]:
                t = f.blocks[bi]["t"]
                dest = place_local(t["d"])
                ty = f.local_ty(dest)
                if not ty.startswith("core::result::Result<"):
                    continue
                used_by_try = _flows_to(f, dest, ("core::ops::try_trait::Try::branch",))
                rep.check(used_by_try, "R-PASS-ORDER", "%s|%s|propagated" % (pid, n), "%s:%d" % (f.file, t["ln"]),
                          "error result of %s is propagated with `?`" % n, "the Result of %s is not propagated: a failed pass would be ignored" % n)
        if lowers:
            dbbs = [bi for bi, t in f.calls() if t.get("f") in DIFFICULTY]
            ok = bool(dbbs) and all(any(x in dom.get(y, ()) for x in dbbs) for y in pos.get("Lowerer::new", []))
            rep.check(ok, "R-PASS-ORDER", "%s|difficulty<Lowerer::new" % pid, f.loc, "difficulty labels are resolved/forbidden before lowering",
                      "neither compute_diff_label_masks nor forbid_difficulty dominates lowering")

    # ------------------------------------------------------------------ R-LOWERER
    n_low = 0
    for f in db.fns.values():
        if f.gen or f.id.startswith("llir::lower::Lowerer::"):
            continue
        for i, ty in enumerate(f.mir["locals"]):
            if not db.types[ty].startswith("llir::lower::Lowerer<"):
                continue
            news = [bi for bi, t in f.calls() if t.get("f", "").endswith("Lowerer::<'a>::new") and place_local(t["d"]) == i]
            drops = [(bi, b["t"]["ln"]) for bi, b in enumerate(f.blocks)
                     if b["t"]["k"] == "drop" and not b.get("cleanup") and place_local(b["t"]["p"]) == i and not place_proj(b["t"]["p"])]
            if not news and not drops:
                continue
            n_low += 1
            key = "%s|lowerer-local-%d" % (f.id, n_low)
            rep.check(not drops, "R-LOWERER", key, f.loc, "no normal-path drop of the Lowerer (finish() consumes it on every path)",
                      "the Lowerer created here can be dropped on a normal path (line %s) without finish(): the panic bomb goes off" % [d[1] for d in drops])
    rep.floor("Lowerer locals", n_low, 6)

    # ------------------------------------------------------------------ R-ERRFLAG
    n_flag = 0
    for f in sorted(db.fns.values(), key=lambda f: f.id):
        if f.gen:
            continue
        for bi, t in f.calls():
            if t.get("f") != "error::ErrorFlag::new":
                continue
            l = place_local(t["d"])
            if place_proj(t["d"]):
                continue
            # stored straight into a struct (visitor field)?  then the owner is responsible
            stored = False
            for b in f.blocks:
                for s in b["s"]:
                    if s["r"] == "agg" and any(op_local(o) == l for o in s["ops"]):
                        stored = True
            if stored:
                continue
            n_flag += 1
            ok, bad_ret = flow.must_pass(f, ["error::ErrorFlag::into_result"])
            rep.check(ok, "R-ERRFLAG", "%s|flag-%d" % (f.id, n_flag), "%s:%d" % (f.file, t["ln"]),
                      "into_result is reached on every normal path", "errors recorded in this ErrorFlag can be lost: a normal return is reachable without into_result()")
    rep.floor("local ErrorFlags", n_flag, 6)
    # ErrorFlags held in visitor structs: the function that builds the struct must call into_result too
    for f in sorted(db.fns.values(), key=lambda f: f.id):
        if f.gen or f.closure:
            continue
        builds = False
        for bi, t in f.calls():
            if t.get("f") == "error::ErrorFlag::new":
                l = place_local(t["d"])
                for b in f.blocks:
                    for s in b["s"]:
                        if s["r"] == "agg" and any(op_local(o) == l for o in s["ops"]):
                            builds = True
        if builds:
            n_flag += 1
            ok, _ = flow.must_pass(f, ["error::ErrorFlag::into_result"])
            if not ok:
                # a constructor: every function that calls it must return the flag through into_result
                callers = [g for g in db.fns.values() if any(t.get("f") == f.id for _, t in g.calls())]
                finishers = ["error::ErrorFlag::into_result"] + [g.id for g in db.fns.values() if not g.gen and not g.closure
                                                                 and any(t.get("f") == "error::ErrorFlag::into_result" for _, t in g.calls())
                                                                 and flow.must_pass(g, ["error::ErrorFlag::into_result"])[0]]
                ok = bool(callers) and all(flow.must_pass(g, finishers)[0] for g in callers)
            rep.check(ok, "R-ERRFLAG", "%s|visitor-flag" % f.id, f.loc, "the pass returns its visitor's ErrorFlag through into_result",
                      "this pass builds a visitor with an ErrorFlag but can return normally without into_result()")

    # ------------------------------------------------------------------ R-ERRFLOW
    makers = sorted(f.id for f in db.fns.values() for _, t in f.calls() if t.get("f") == "error::ErrorReported::new")
    allowed = {"diagnostic::RootEmitter::emit", "diagnostic::Emitter::emit", "<diagnostic::DummyEmitter as diagnostic::Emitter>::emit"}
    for mk in makers:
        rep.check(mk in allowed, "R-ERRFLOW", "ErrorReported::new|%s" % mk, db.fns[mk].loc, "ErrorReported is created by an emitter",
                  "ErrorReported::new called outside the emitters: a failure without a printed error")
    rep.floor("ErrorReported::new call sites", len(makers), 3)
    IGNORE_OK = {
        "diagnostic::Emitter::emit": "the per-diagnostic result inside Emitter::emit; emit itself returns ErrorReported::new()",
        "cli_def::cli::parse_args": "followed by std::process::exit(1)",
        "cli_def::cli::parse_subcommand": "followed by std::process::exit(1)",
    }
    n_ign = n_emit = 0
    for f in db.fns.values():
        if f.gen:
            continue
        d = None
        for bi, t in f.calls():
            c = t.get("f", "")
            if c == "error::ErrorReported::ignore":
                n_ign += 1
                d = d or flow.Defs(f)
                l = op_local(t["a"][0])
                srcs = d.sources(l, through_calls=False) if l is not None else set()
                em = [s for s in srcs if s[0] == "call" and s[1].endswith("::emit")]
                sevs = set()
                unknown = not em
                for s in em:
                    sv = _severity(f, d, f.blocks[s[2]]["t"])
                    if not sv:
                        unknown = True
                    sevs |= sv
                key = "ignore|%s|%d" % (f.id, sum(1 for i in rep.instances if i["key"].startswith("ignore|%s|" % f.id)) + 1)
                loc = "%s:%d" % (f.file, t["ln"])
                if root_fn(f.id) in IGNORE_OK:
                    exit_after = True
                    if "process::exit" in IGNORE_OK[root_fn(f.id)]:
                        exit_after = any(t2.get("f") == "std::process::exit" for bj, t2 in f.calls() if bj in f.reachable_from(bi))
                    rep.check(exit_after, "R-ERRFLOW", key, loc, "audited: " + IGNORE_OK[root_fn(f.id)], "audited ignore() is no longer followed by process::exit")
                elif unknown or (sevs - {"warning", "info"}):
                    rep.bad("R-ERRFLOW", key, loc, "ignore() applied to an emission of severity %s: an error would be printed while the command goes on to succeed" % (sorted(sevs) or "unknown"))
                else:
                    rep.ok("R-ERRFLOW", key, loc, "ignore() of a %s" % "/".join(sorted(sevs)))
            if c.endswith("Emitter::emit") or c == "diagnostic::RootEmitter::emit":
                n_emit += 1
                d = d or flow.Defs(f)
                sv = _severity(f, d, t)
                if sv and sv <= {"warning", "info"}:
                    dest = place_local(t["d"])
                    ignored = any(t2.get("f") == "error::ErrorReported::ignore" and op_local(t2["a"][0]) == dest for _, t2 in f.calls())
                    key = "warning-emit|%s|%d" % (f.id, t["ln"] - f.line)
                    rep.check(ignored, "R-ERRFLOW", key, "%s:%d" % (f.file, t["ln"]), "warning emission is ignore()d",
                              "the ErrorReported of a warning-only emission is used as an error: failure without an error diagnostic")
    rep.floor("ignore() sites", n_ign, 50)
    rep.floor("emit sites", n_emit, 200)

    # ------------------------------------------------------------------ R-UNWRAP-TEXT
    utab = load_table("c04_unwrap.json")
    n_un = 0
    for f in sorted(db.fns.values(), key=lambda f: (f.file, f.line)):
        if not (f.id in W or f.parent in W):
            continue
        d = None
        k = 0
        for bi, t in f.calls():
            if t.get("f", "") not in UNWRAP:
                continue
            d = d or flow.Defs(f)
            l = op_local(t["a"][0])
            if l is None:
                continue
            srcs = d.sources(l, through_calls=False)
            ps = [s for s in srcs if s[0] == "call" and PARSE.match(s[1])]
            if not ps:
                continue
            n_un += 1
            k += 1
            what = ps[0][1]
            ga = ",".join(f.blocks[ps[0][2]]["t"].get("ga") or [])
            fid = "parse::lalrparser::<action>" if f.gen else f.id
            key = "%s|%s<%s>" % (fid, what.rsplit("::", 1)[-1], ga[:40])
            ent = utab.get(key)
            loc = "%s:%d" % (os.path.basename(f.file) if f.gen else f.file, t["ln"])
            if ent:
                rep.ok("R-UNWRAP-TEXT", key + "|%d" % k, loc, "audited: " + ent["reason"])
            else:
                rep.bad("R-UNWRAP-TEXT", key + "|%d" % k, loc, "the result of %s is unwrapped on a path reachable from text input" % what)
    rep.floor("unwrapped fallible conversions (compile-reachable)", n_un, 3)

    # ------------------------------------------------------------------ R-ARITH
    atab = load_table("c04_arith.json")
    n_ar = n_dis = 0
    ordinal = {}        # counted per ROOT function (closures are attributed to the function that contains them,
    #                     so that adding an unrelated closure does not renumber audited sites)
    for f in sorted(in_scope, key=lambda f: (root_fn(f.id), f.file, f.line, f.id)):
        if f.gen:
            continue
        rid = root_fn(f.id)
        for b in f.blocks:
            t = b["t"]
            if t["k"] != "assert" or b.get("cleanup"):
                continue
            if not (t["msg"].startswith("overflow") or "zero" in t["msg"]):
                continue
            tys = []
            for o in t["ops"]:
                l = op_local(o)
                if l is not None:
                    tys.append(f.local_ty(l))
                elif "ty" in o:
                    tys.append(db.types[o["ty"]])
            if not any(x in SMALL for x in tys):
                continue
            n_ar += 1
            rep.site()
            ops = t["ops"]
            if t["msg"] in ("overflow:Shl", "overflow:Shr") and len(ops) > 1 and "iv" in ops[1]:
                n_dis += 1
                continue
            if t["msg"] in ("remzero", "divzero") and "iv" in ops[0] and ops[0]["iv"] != 0:
                n_dis += 1
                continue
            if all("iv" in o for o in ops):
                n_dis += 1
                continue
            k0 = "%s|%s" % (rid, t["msg"])
            ordinal[k0] = ordinal.get(k0, 0) + 1
            key = "%s|%d" % (k0, ordinal[k0])
            loc = "%s:%d" % (f.file, t["ln"])
            ent = atab.get(rid)
            if ent and ordinal[k0] <= ent.get("allow", {}).get(t["msg"], 0):
                rep.ok("R-ARITH", key, loc, "%s on %s: audited: %s" % (t["msg"], "/".join(tys), ent["reason"]))
            elif ent:
                rep.bad("R-ARITH", key, loc, "panicking %s on %s operands: the audit of %s covers %d such operation(s), this is one more" % (
                    t["msg"], "/".join(tys), rid, ent.get("allow", {}).get(t["msg"], 0)))
            else:
                rep.bad("R-ARITH", key, loc, "panicking %s on %s operands in code reachable from text input, with no audited bound" % (t["msg"], "/".join(tys)))
    rep.floor("arithmetic asserts on small integers", n_ar, 50)
    rep.note("arithmetic asserts discharged by constant operands: %d of %d" % (n_dis, n_ar))
    # ---------------- R-STR-SLICE: byte-index slicing of text
    rep.rule("R-STR-SLICE", "every slice / split of a str by byte index (panics off a char boundary) is an audited site whose indices are boundaries by construction")
    stab = json.load(open(os.path.join(VERIF, "engine", "tables", "c04_strslice.json")))["entries"]
    n_sl = 0
    per = {}
    for f in sorted(db.fns.values(), key=lambda f: f.id):
        if f.gen:
            continue
        for bi, t in f.calls():
            c, fr, ga = t.get("f", ""), t.get("fr") or "", t.get("ga") or []
            hit = None
            if c == "core::ops::index::Index::index" and ga and ga[0] in ("str", "alloc::string::String") and len(ga) > 1 and "RangeFull" not in ga[1]:
                hit = "index " + ga[1].rsplit("::", 1)[-1]
            elif c in ("core::str::<impl str>::split_at", "core::str::<impl str>::split_at_mut", "alloc::string::String::split_off",
                       "alloc::string::String::truncate", "alloc::string::String::insert", "alloc::string::String::insert_str",
                       "alloc::string::String::remove", "alloc::string::String::drain", "alloc::string::String::replace_range"):
                hit = c.rsplit("::", 1)[-1]
            if hit:
                n_sl += 1
                per.setdefault(f.id, []).append((t["ln"], hit))
    for fid, lst in sorted(per.items()):
        f = db.fns[fid]
        rep.fn(f)
        ent = stab.get(fid)
        allow = ent["allow"] if ent else 0
        rep.check(len(lst) <= allow, "R-STR-SLICE", fid, "%s:%d" % (f.file, lst[0][0]),
                  "%d byte-index slice(s) of text, audited: %s" % (len(lst), ent["reason"] if ent else ""),
                  "%d byte-index slice(s) of text (%s) but only %d audited: an index that is not a char boundary (non-ASCII input) or out of range panics before any diagnostic"
                  % (len(lst), ", ".join("line %d %s" % x for x in lst), allow))
    rep.floor("byte-index text slices", n_sl, 9)

    # ---------------- R-RECURSION: call-graph cycles
    rep.rule("R-RECURSION", "every call-graph cycle lies inside an audited family whose recursion is bounded by the size/nesting of its input; "
                            "recursion anywhere else (e.g. following file references) is unbounded by construction until audited")
    fams = [(re.compile(x["re"]), x["reason"]) for x in json.load(open(os.path.join(VERIF, "engine", "tables", "c04_recursion.json")))["families"]]
    sccs = db.recursive_sccs()
    rep.floor("recursive call-graph components", len(sccs), 40)
    for comp in sccs:
        outside = [m for m in comp if not any(r.search(m) or (db.fns[m].parent and r.search(db.fns[m].parent)) for r, _ in fams)]
        f0 = db.fns[comp[0]]
        why = next((rs for r, rs in fams if r.search(comp[0])), "")
        rep.check(not outside, "R-RECURSION", "cycle|" + comp[0] + ("|+%d" % (len(comp) - 1) if len(comp) > 1 else ""), f0.loc,
                  "%d function(s): %s" % (len(comp), why[:160]),
                  "call-graph cycle through %s is not in an audited recursion family: its depth is not bounded by the structure of the input "
                  "(stack overflow instead of a diagnostic)" % ", ".join(outside[:4]))
    # ---------------- R-RENDER: labels without a source location never reach the renderer
    rep.rule("R-RENDER", "Diagnostic::primary / ::secondary push a label only for spans that have a file (Span::NULL, used for built-in "
                         "definitions, cannot be drawn and makes codespan's renderer fail -> panic in write_error)")
    for nm in ("primary", "secondary"):
        g = db.fn("diagnostic::Diagnostic::" + nm)
        rep.fn(g)
        dg = flow.Defs(g)
        pushes = [bi for bi, t in g.calls() if t.get("f", "").endswith("Vec::<T, A>::push")]
        okr = bool(pushes)
        for pb in pushes:
            guards = flow.bool_call_guards(g, pb, "Option::<T>::is_none", dg) + flow.bool_call_guards(g, pb, "Option::<T>::is_some", dg)
            if not any(flow.has_field_source(dg._op_sources(t["a"][0], 0, set(), True), "pos::span::Span", "file_id") for _, t in guards):
                okr = False
        rep.check(okr, "R-RENDER", "Diagnostic::%s|null-span" % nm, g.loc, "the label is pushed only after testing span.file_id",
                  "a label with Span::NULL (no file) can be attached: rendering such a diagnostic panics instead of printing it")
    # ---------------- R-EXPECT-ERR: a reported (or suppressed) error must propagate, never be unwrapped
    rep.rule("R-EXPECT-ERR", "no unwrap()/expect() on a Result whose error type is ErrorReported / Diagnostic outside the audited sites: "
                             "such a Result is Err exactly when an input was rejected, so unwrapping it turns a diagnostic into a panic")
    EXPECT_OK = {
        "cli_def::load_mapfiles": "applies the BUILT-IN core mapfile (trusted text shipped in the binary), before any user mapfile",
        "core_mapfiles::add_spans_to_core_mapfile": "re-parses the built-in core mapfile text that truth itself just printed",
        "context::defs::<impl context::CompilerContext<'_>>::set_ins_abi": "Signature::validate is `Ok(())` unconditionally (checked below)",
        "vm::AstVm::run": "test interpreter, not reachable from the CLI",
    }
    n_exp = 0
    for f in sorted(db.fns.values(), key=lambda f: f.id):
        if f.gen:
            continue
        for bi, t in f.calls():
            c = t.get("f", "")
            if c in ("core::result::Result::<T, E>::unwrap", "core::result::Result::<T, E>::expect") and any(
                    g_ in ("error::ErrorReported", "diagnostic::Diagnostic") for g_ in (t.get("ga") or [])[1:2]):
                n_exp += 1
                rid = root_fn(f.id)
                rep.check(rid in EXPECT_OK, "R-EXPECT-ERR", "%s|%s" % (rid, c.rsplit("::", 1)[-1]), "%s:%d" % (f.file, t["ln"]),
                          "audited: " + EXPECT_OK.get(rid, ""),
                          "%s() on a Result<_, %s>: when the callee rejects the input (possibly with its diagnostic suppressed) this panics "
                          "instead of failing with a diagnostic" % (c.rsplit("::", 1)[-1], (t.get("ga") or ["", "?"])[1]))
    rep.floor("unwrap/expect on reported-error results", n_exp, 3)
    sv = db.fn("context::defs::Signature::validate")
    trivially_ok = not any(t.get("f") for _, t in sv.calls()) and len(sv.blocks) <= 2
    rep.check(trivially_ok, "R-EXPECT-ERR", "Signature::validate|cannot fail", sv.loc, "validate() has no failing path (audit witness for set_ins_abi)",
              "Signature::validate can now fail, but set_ins_abi unwraps its result on user-supplied signatures")
    # an AST child the type checker skips reaches later passes that panic on type errors (rule shared with C09)
    from props import c09
    rep.rule("R-PARTIAL-ITER", "the type checker never walks a collection of AST nodes through an element-dropping adaptor (shared with C09)")
    c09.rule_partial_iter(db, rep)
    # ---------------- R-DEFS-ORDER: definitions are validated after ALL mapfiles were loaded
    rep.rule("R-DEFS-ORDER", "in every command entry point that loads mapfiles named by `#pragma mapfile`, Truth::validate_defs runs after "
                             "load_mapfiles_from_pragmas (signatures from pragma mapfiles that were never validated make later passes panic, e.g. on "
                             "an unknown enum name)")
    n_do = 0
    for g in sorted(db.fns.values(), key=lambda g: (g.file, g.line)):
        if g.gen or not g.file.endswith("src/cli_def.rs"):
            continue
        pr = [bi for bi, t in g.calls() if (t.get("f") or "").endswith("load_mapfiles_from_pragmas")]
        vd = [bi for bi, t in g.calls() if (t.get("f") or "").endswith("::validate_defs")]
        if not pr or not vd:
            continue
        n_do += 1
        rep.fn(g)
        # no path on which the pragma mapfiles are loaded AFTER validation
        ok = not any(p_ in g.reachable_from(v) and p_ != v for v in vd for p_ in pr)
        rep.check(ok, "R-DEFS-ORDER", g.id, g.loc, "pragma mapfiles are loaded before the definitions are validated",
                  "%s validates the definitions before the `#pragma mapfile` files are loaded: their signatures are never validated" % g.id.rsplit("::", 2)[-2])
    rep.floor("command entry points with pragma mapfiles", n_do, 4)
    # ---------------- R-VISIT-EXPR: validation passes look at every sub-expression
    rep.rule("R-VISIT-EXPR", "every hand-written visit_expr override delegates to walk_expr or visits all children of the variants it matches (a "
                             "validation pass that skips a nested expression lets later passes hit their assertions); audited exceptions are listed "
                             "in rules/visit.py")
    n_ve = visit.check_all_expr_visitors(db, rep, "R-VISIT-EXPR")
    rep.floor("visit_expr overrides checked", n_ve, 6)
    # ---------------- R-RECOVERY-STATE: bookkeeping that is asserted after an error-recovering loop is done before anything can fail
    rep.rule("R-RECOVERY-STATE", "old-ECL compile: each `script` item takes its timeline slot before any fallible step of the same item (the loop recovers "
                                 "from errors and `assert_eq!(timeline_indices_in_ast_order.next(), None)` follows it: an item that fails after the "
                                 "diagnostic but before taking its slot turns the diagnostic into a panic)")
    ce = db.fn("formats::ecl::ecl_06::compile")
    rep.fn(ce)
    found = False
    ok_rs = False
    why_rs = "the Item::Script arm of the old-ECL compile loop was not found"
    for n in hir_walk(ce.hir):
        if n.get("k") != "Match":
            continue
        for arm in n["arms"]:
            if not any(s_ and s_.startswith("ast::Item::Script") for s_ in arms.pat_sig(arm["p"])):
                continue
            seq = []
            for x in hir_walk(arm["b"]):
                if x.get("k") == "Match" and (x.get("src") or "").startswith("TryDesugar"):
                    seq.append("try")
                elif x.get("k") == "MCall" and (x.get("f") or "").endswith("Iterator::next") and any(
                        y.get("k") == "Path" and y.get("p") == "timeline_indices_in_ast_order" for y in hir_walk(x.get("r") or {})):
                    seq.append("slot")
            if "slot" not in seq:
                continue
            found = True
            ok_rs = seq.index("slot") < (seq.index("try") if "try" in seq else len(seq))
            why_rs = "in the Item::Script arm a `?` comes before timeline_indices_in_ast_order.next(): %s" % seq
    asserted = any((t.get("f") or "").startswith("core::panicking::assert_failed") for _, t in ce.calls())
    rep.check(found and ok_rs, "R-RECOVERY-STATE", "ecl_06::compile|Script takes its slot first", ce.loc,
              "the slot is taken before the first fallible step%s" % ("" if asserted else " (the trailing assert is gone)"), why_rs)
    # a mapfile signature that the intrinsic ABI check lets through must be one the lowerer can place (shared with C12)
    from props import c12
    c12.rule_jump_adjacent(db, rep)
    return rep


def _flows_to(f, local, callees):
    work = [local]
    seen = set()
    while work:
        l = work.pop()
        if l in seen:
            continue
        seen.add(l)
        for b in f.blocks:
            for s in b["s"]:
                if s["r"] in ("use",) and op_local(s["o"]) == l and not place_proj(s["d"]):
                    work.append(place_local(s["d"]))
            t = b["t"]
            if t["k"] == "call" and any(op_local(a) == l for a in t["a"]):
                if t.get("f") in callees:
                    return True
                # `.map_err(..)?`, `.unwrap_or_else(|e| errors.set(e))`
                if t.get("f", "").startswith("core::result::Result::<T, E>::"):
                    name = t["f"].rsplit("::", 1)[-1]
                    if name in ("map_err", "map", "and_then", "or_else"):
                        work.append(place_local(t["d"]))
                    elif name in ("unwrap_or_else",):
                        return True
    return False


def _severity(f, d, t):
    arg = t["a"][1] if len(t["a"]) > 1 else None
    l = op_local(arg) if arg else None
    srcs = d.sources(l) if l is not None else set()
    return set(s[1].rsplit("::", 1)[-1] for s in srcs if s[0] == "call" and s[1].startswith("diagnostic::Diagnostic::")
               and s[1].rsplit("::", 1)[-1] in ("error", "warning", "bug", "info"))
