"""C08 Printed scripts parse back to the same script at every line width (structural clauses)."""
import os
import re
from common import Report
from facts import hir_walk
from rules import arms
from rules.visit import variant_alternatives

EXPLANATION = (
    "Static sibling comparison of the formatter (src/fmt.rs, HIR) with the parser (grammar text + lalrparser_util).  "
    "R-GROUP: the formatter has no precedence logic, so every composite expression arm (Ternary, BinOp, DiffSwitch, "
    "prefix -,!,~) goes through fmt_optional_parens, function-style unary operators wrap their operand in explicit "
    "parentheses, and SuppressParens is used only where the printed text delimits the expression itself (between "
    "`(`..`)` or as a whole right-hand side before `;`).  R-ESCAPE: the characters escaped by <LitString as Format>::fmt "
    "and the escapes accepted by parse_string_literal are inverse tables, and contain `\"` and `\\\\` (required by the "
    "lexer's string regex).  R-FLOAT: f32 is printed with Display (never Debug / exponent formats, which the lexer "
    "cannot read), gets `.0` appended when no `.` is present, and non-finite values print as the INF / NAN constants.  "
    "R-LIST-SEP: a list that the grammar parses with SeparatedStrict (no trailing separator) is never printed with "
    "fmt_comma_separated (which emits a trailing comma in block layout); lists printed with fmt_comma_separated are "
    "SeparatedTrailing in the grammar.  Decides these conditions; token gluing, inline/block backtracking at each "
    "width, literal round trip and idempotence are NOT decided.")
RULE = "instance = one expression arm / SuppressParens use / escape pair / float-format call / list construct"

FE = "<ast::Expr as fmt::Format>::fmt"


def lit_of(n):
    if n.get("k") == "Lit" and n["v"].startswith('"'):
        return n["v"][1:-1]
    return None


def rule_escape(db, rep):
    """R-ESCAPE: shared with C15 (a string printed with an escape the parser rejects does not survive decompile+recompile)"""
    # ---------------- R-ESCAPE
    fs = db.fn("<ast::LitString as fmt::Format>::fmt")
    ps = db.fn("parse::lalrparser_util::parse_string_literal")
    rep.fn(fs)
    rep.fn(ps)

    def char_table(fn):
        out = {}
        for n in hir_walk(fn.hir):
            if n.get("k") == "Match":
                for arm in n["arms"]:
                    p = arm["p"]
                    if p["k"] == "Lit" and p["v"].startswith("'"):
                        ch = p["v"][1:-1]
                        lits = [lit_of(x) for x in hir_walk(arm["b"]) if lit_of(x) is not None]
                        if lits:
                            out[ch] = lits[0]
        return out
    ft = char_table(fs)      # char -> escape text (e.g. '\n' -> '\\n')
    pt = char_table(ps)      # escape letter -> char text
    rep.floor("escapes accepted by parse_string_literal", len(pt), 5)
    generic = sorted(set(t.get("f", "") for _, t in fs.calls() if re.search(r"::escape_(debug|default|unicode)$", t.get("f", ""))))
    rep.check(not generic, "R-ESCAPE", "fmt|no generic escaper", fs.loc, "the formatter escapes through its own table only",
              "the formatter escapes characters with %s, which also writes escapes (\\t, \\', \\u{..}) that parse_string_literal rejects" % generic)
    for ch, esc in sorted(ft.items()):
        ok = len(esc) == 2 and esc[0] == "\\" and pt.get(esc[1]) == ch
        rep.check(ok, "R-ESCAPE", "fmt|%r" % ch, fs.loc, "%r is written as %r and %r parses back to it" % (ch, esc, esc),
                  "%r is written as %r but the parser maps \\%s to %r" % (ch, esc, esc[1:] if esc else "", pt.get(esc[1]) if len(esc) == 2 else None))
    for letter, ch in sorted(pt.items()):
        rep.check(ft.get(ch) == "\\" + letter, "R-ESCAPE", "parse|\\%s" % letter, ps.loc, "escape \\%s is also produced by the formatter" % letter,
                  "the parser accepts \\%s for %r but the formatter writes %r for that character" % (letter, ch, ft.get(ch)))
    rep.check('"' in ft and "\\" in ft, "R-ESCAPE", "fmt|quote-and-backslash", fs.loc, "`\"` and `\\` are escaped", "the formatter does not escape both `\"` and `\\`")



def rule_float(db, rep):
    """R-FLOAT: shared with C01 (a float printed in a form the lexer rejects breaks the decompile->recompile round trip)"""
    # ---------------- R-FLOAT
    ff = db.fn("<f32 as fmt::Format>::fmt")
    rep.fn(ff)
    fmt_calls = [t for _, t in ff.calls() if t.get("f", "").startswith("core::fmt::rt::Argument::<'_>::new_") and "f32" in " ".join(t.get("ga", []))]
    kinds = sorted(set(t["f"].rsplit("::", 1)[-1] for t in fmt_calls))
    rep.check(bool(kinds) and set(kinds) == {"new_display"}, "R-FLOAT", "f32|display-only", ff.loc, "finite floats are formatted with Display",
              "f32 is formatted with %s: exponent notation (e.g. 1e-5) is not a FLOAT token" % kinds)
    lits = [lit_of(n) for n in hir_walk(ff.hir) if lit_of(n) is not None]
    for need in (".0", "INF", "-INF", "NAN"):
        rep.check(need in lits, "R-FLOAT", "f32|%s" % need, ff.loc, "prints %r where needed" % need, "the f32 formatter no longer produces %r" % need)
    # no other float formatting in the formatter module
    others = []
    for g in db.fns.values():
        if g.gen or not g.file.endswith("src/fmt.rs") or g.id == ff.id:
            continue
        for _, t in g.calls():
            if t.get("f", "").startswith("core::fmt::rt::Argument::<'_>::new_") and (t.get("ga") or [""])[0] in ("f32", "&f32", "f64"):
                others.append((g.id, t["ln"]))
    rep.check(not others, "R-FLOAT", "fmt.rs|single-float-printer", ff.loc, "floats are only printed by <f32 as Format>::fmt", "floats are also formatted at %s" % others)



def run(db, tier):
    rep = Report("C08", tier, EXPLANATION, RULE)
    rep.rule("R-GROUP", "grouping is preserved by parentheses wherever an expression has sub-expressions")
    rep.rule("R-SUPPRESS", "parentheses are suppressed only where the surrounding text delimits the expression")
    rep.rule("R-ESCAPE", "string escapes written by the formatter are exactly those the parser reads back")
    rep.rule("R-FLOAT", "floats are printed in a form the lexer accepts")
    rep.rule("R-LIST-SEP", "no trailing separator is printed where the grammar forbids one")

    # ---------------- R-GROUP
    f = db.fn(FE)
    rep.fn(f)
    m = arms.first_match(f, db, "ast::Expr")
    tab = {}
    for vs, arm in arms.simple_table(m):
        for v in vs:
            tab.setdefault(v, arm)
    for v in ("ast::Expr::Ternary", "ast::Expr::BinOp", "ast::Expr::DiffSwitch"):
        arm = tab.get(v)
        ok = arm is not None and any(c.endswith("Formatter::<W>::fmt_optional_parens") for c in arms.calls_in(arm["b"]))
        rep.check(ok, "R-GROUP", "Expr|%s" % v.rsplit("::", 1)[-1], "%s:%d" % (f.file, arm["ln"] if arm else f.line),
                  "printed through fmt_optional_parens", "%s is printed without fmt_optional_parens: nested occurrences lose their grouping" % v)
    u = tab.get("ast::Expr::UnOp")
    inner = None
    if u is not None:
        for n in hir_walk(u["b"]):
            if n.get("k") == "Match":
                inner = n
                break
    rep.check(inner is not None, "R-GROUP", "Expr|UnOp|dispatch", f.loc, "unary operators are dispatched by kind", "the UnOp arm no longer matches on the operator")
    if inner is not None:
        for arm in inner["arms"]:
            ops = [v.rsplit("::", 1)[-1] for v, _ in variant_alternatives(arm["p"])]
            calls = arms.calls_in(arm["b"])
            parens = any(c.endswith("fmt_optional_parens") for c in calls)
            lits = [lit_of(n) for n in hir_walk(arm["b"]) if lit_of(n) is not None]
            explicit = "(" in lits and ")" in lits
            for op in ops:
                prefix = op in ("Neg", "Not", "BitNot")
                ok = parens if prefix else explicit
                rep.check(ok, "R-GROUP", "Expr|UnOp|%s" % op, "%s:%d" % (f.file, arm["ln"]),
                          "prefix operator through fmt_optional_parens" if prefix else "function-style operator with explicit ( )",
                          "unary %s is printed without %s" % (op, "fmt_optional_parens" if prefix else "explicit parentheses around its operand"))

    # ---------------- R-SUPPRESS
    n_sup = 0
    for g in db.fns.values():
        if g.gen or g.hir is None or not g.file.endswith("src/fmt.rs"):
            continue
        for n in hir_walk(g.hir):
            if n.get("k") != "Tup":
                continue
            es = n["es"]
            for i, e in enumerate(es):
                if e.get("k") == "Call" and (e.get("f") or "").endswith("SuppressParens"):
                    n_sup += 1
                    rep.fn(g)
                    prev = next((lit_of(x) for x in reversed(es[:i]) if lit_of(x) is not None), None)
                    nxt = next((lit_of(x) for x in es[i + 1:] if lit_of(x) is not None), None)
                    ok = nxt is not None and (nxt.startswith(")") or nxt.startswith(";")) and (prev is None or prev.endswith("(") or (prev.endswith(" ") and nxt.startswith(";")))
                    if prev is None and nxt is not None and nxt.startswith(")"):
                        ok = True      # `times(` is printed by a preceding statement; the closing `)` follows
                    rep.check(ok, "R-SUPPRESS", "%s|%d" % (g.id, n_sup), "%s:%d" % (g.file, e["ln"]),
                              "SuppressParens between %r and %r" % (prev, nxt),
                              "SuppressParens is used where the surrounding text (%r ... %r) does not delimit the expression" % (prev, nxt))
    rep.floor("SuppressParens use sites", n_sup, 6)

    rule_escape(db, rep)

    rule_float(db, rep)

    # ---------------- R-INT-LIT: every integer the formatter can print is in the range the literal parser accepts
    rep.rule("R-INT-LIT", "the integer-literal parser reads all three radices as full 32-bit unsigned numbers (the formatter prints unsigned decimals, "
                          "hex and binary bit patterns up to 0xFFFFFFFF, and the sign separately)")
    pl = db.fn("parse::lalrparser_util::parse_u32_literal")
    rep.fn(pl)
    parses = []
    for g in [pl] + list(db.children.get(pl.id, [])):
        for _, t in g.calls():
            c = t.get("f", "")
            if c.endswith("<impl str>::parse"):
                parses.append(("parse", (t.get("ga") or ["?"])[0], t["ln"]))
            m = re.match(r"^core::num::<impl (\w+)>::from_str_radix$", c)
            if m:
                parses.append(("from_str_radix", m.group(1), t["ln"]))
    bad = [p_ for p_ in parses if p_[1] != "u32"]
    rep.check(len(parses) >= 3 and not bad, "R-INT-LIT", "parse_u32_literal|all radices parse as u32", pl.loc, "%d conversions, all to u32" % len(parses),
              "parse_u32_literal converts with %s: literals from 2147483648 to 4294967295 (printed by the formatter for unsigned arguments and for i32::MIN) are rejected" % bad)

    # ---------------- R-LIST-SEP
    gpath = os.path.join(getattr(db, "repo", "/repo"), "src", "parse", "lalrparser.lalrpop")
    text = open(gpath).read()
    strict = set()
    trailing = set()
    lines = text.split("\n")
    for i, ln in enumerate(lines):
        if re.match(r"^Separated\w*<", ln):
            continue
        for kind, dest in (("SeparatedStrict<", strict), ("SeparatedTrailing<", trailing)):
            if kind in ln:
                for j in range(i, min(i + 6, len(lines))):
                    mm = re.search(r"=>\??\s*(?:\{)?\s*(?:Ok\()?\s*((?:ast::)?[A-Za-z]+::[A-Za-z]+)", lines[j])
                    if mm:
                        dest.add(mm.group(1).replace("ast::", ""))
                        break
    rep.floor("grammar lists without trailing separator", len(strict), 2)
    printers = {
        "Item::ConstVar": ("<ast::Item as fmt::Format>::fmt", "ast::Item", "ast::Item::ConstVar"),
        "StmtKind::Declaration": ("<ast::StmtKind as fmt::Format>::fmt", "ast::StmtKind", "ast::StmtKind::Declaration"),
    }
    for cons in sorted(strict):
        if cons not in printers:
            rep.bad("R-LIST-SEP", "grammar|%s" % cons, gpath, "the grammar parses %s with SeparatedStrict but the checker has no formatter arm registered for it" % cons)
            continue
        fid, enum, variant = printers[cons]
        g = db.fns.get(fid) or db.fns.get(fid.replace("StmtKind", "Stmt"))
        if g is None:
            rep.bad("R-LIST-SEP", "fmt|%s" % cons, gpath, "no formatter function %s" % fid)
            continue
        rep.fn(g)
        mm = arms.first_match(g, db, enum)
        arm = None
        if mm is not None:
            for vs, a in arms.simple_table(mm):
                if variant in vs:
                    arm = a
        if arm is None:
            rep.bad("R-LIST-SEP", "fmt|%s" % cons, g.loc, "no formatter arm for %s" % variant)
            continue
        bad = any(c.endswith("Formatter::<W>::fmt_comma_separated") for c in arms.calls_in(arm["b"]))
        rep.check(not bad, "R-LIST-SEP", "fmt|%s" % cons, "%s:%d" % (g.file, arm["ln"]),
                  "printed without a trailing separator (grammar: SeparatedStrict)",
                  "%s is printed with fmt_comma_separated, which emits a trailing comma in block layout, but the grammar parses this list with SeparatedStrict" % cons)
    # ---------------- every string literal is printed through the escaping formatter
    rep.rule("R-STR-PRINT", "in the formatter the text of a string literal (`LitString.string`) is read only by <LitString as Format>::fmt, "
                            "which escapes it; no other Format impl writes the raw text (paths in #pragma lines included)")

    def _mentions_litstring(x):
        if isinstance(x, list):
            if len(x) >= 3 and x[0] == "f" and x[1] == "string" and "LitString" in str(x[2]):
                return True
            return any(_mentions_litstring(y) for y in x)
        if isinstance(x, dict):
            return any(_mentions_litstring(y) for y in x.values())
        return False
    n_fmt = 0
    seen_escaper = False
    for g in sorted(db.fns.values(), key=lambda x: x.id):
        rid = re.sub(r"(::\{closure#\d+\})+$", "", g.id)
        if g.gen or not (rid.startswith("fmt::") or rid.endswith("as fmt::Format>::fmt")):
            continue
        n_fmt += 1
        reads = any(_mentions_litstring(st) for b in g.blocks for st in b["s"]) or any(_mentions_litstring(b["t"]) for b in g.blocks)
        if rid == "<ast::LitString as fmt::Format>::fmt":
            seen_escaper = seen_escaper or reads
            continue
        if reads:
            rep.bad("R-STR-PRINT", rid + "|raw string", g.loc, "%s reads LitString.string directly: the text is printed without escaping, so a "
                    "string containing a quote or backslash does not parse back to the same string" % rid)
    rep.check(seen_escaper, "R-STR-PRINT", "LitString|escaper reads the text", "src/fmt.rs", "%d formatter functions scanned; only the escaping impl reads the raw text" % n_fmt,
              "<LitString as Format>::fmt no longer reads the string")
    rep.floor("formatter functions scanned", n_fmt, 60)
    return rep
