"""C09 The type checker accepts exactly the well-typed scripts and predicts value types (finite parts)."""
from common import Report
from facts import MissingAnchor
from facts import hir_walk
from rules import visit, arms, optables, flow

EXPLANATION = (
    "Static rules over the type-checked `truth` lib.  (1) R-VISIT: every statement-kind / item arm of the hand-written "
    "type_check::Visitor visits exactly the child fields the repository's canonical walker (ast::walk_stmt / walk_item) "
    "visits, delegates to it, or rejects the variant - so an ill-typed construct is found wherever it sits.  "
    "(2) R-ARMS (finite, exhaustive): the acceptance table read from binop_check/unop_check + BinOpKind::class + "
    "require_* equals the definedness table read from BinOpKind/UnOpKind::const_eval for all (operator, operand type) "
    "cells, mixed operand types are rejected by require_same and undefined in the evaluator, and the static result type "
    "(_binop_ty/_unop_ty) equals the ScalarValue constructor of the evaluator arm.  (3) check_expr and compute_ty cover "
    "all Expr variants without wildcard and agree arm by arm where the result is a constant or a shared helper.  "
    "(4) must-call obligations: conditions, loop counts, label expressions go through require_int; assignment, "
    "declaration, return and expression statements through their require_* check; call arity and parameter types are "
    "compared (MIR comparisons fed by Signature::min_args/max_args and the parameter type).  Decides these finite / "
    "structural parts; does not decide acceptance of whole programs against an independent typer.")
RULE = ("instances: one per (visitor arm, variant with children); one per (operator, operand type) cell (19x3 + 14x3, "
        "enumerated exhaustively); one per Expr variant; one per must-call obligation; all non-trivial; distinct by key")

TC_VISITOR = "<passes::type_check::Visitor<'_, '_> as ast::ref_::Visit>::"
TC = "passes::type_check::"
V = TC + "Visitor::<'_, '_>::"
E = TC + "ExprTypeChecker::<'_, '_>::"

MUST_CALL = [
    # (function, callee, why)
    (TC_VISITOR + "visit_expr", E + "check_expr", "every expression reached through the visitor is type-checked"),
    (TC_VISITOR + "visit_cond", V + "check_cond", "conditions are checked"),
    (V + "check_cond", E + "require_int", "conditions are int-only"),
    (V + "check_stmt_times", E + "require_int", "loop counts are int-only"),
    (V + "check_stmt_times", E + "require_same", "named counter has the count's type", "present"),
    (V + "check_int_expr", E + "require_int", "interrupt / relative time label expressions are int-only"),
    (V + "check_stmt_assignment", (E + "require_same", E + "binop_check"), "assignment: same types (plain) or operator class + same types (compound) on every path"),
    (V + "check_stmt_assignment", E + "binop_check", "compound assignment: operator class accepts the operand type", "present"),
    (V + "check_stmt_assignment", E + "check_var", "assignment target is a typed variable (sigils only on numeric variables)"),
    (V + "check_single_var_decl", E + "_require_exact", "declaration: initializer has the declared type", "present"),
    (V + "check_single_var_decl", E + "check_var_weak", "declaration: variable/sigil validity"),
    (V + "check_stmt_return", E + "_require_exact_expr", "return value matches the function's return type"),
    (V + "check_stmt_expr", E + "require_void", "expression statements must be void"),
    (V + "check_stmt_declaration", V + "check_single_var_decl", "every declared variable is checked"),
    (E + "check_expr_as_value", E + "require_value", "void expressions are rejected where a value is needed"),
    (E + "check_expr_call", E + "pseudo_check", "pseudo-arg types"),
    (E + "check_expr_call", E + "check_expr_as_value", "argument expressions are checked"),
]


def hirq_features(f, node):
    from rules import hirq
    return hirq.features(f, node, hirq.lets(f))


def rule_param_pair(db, rep):
    """R-PARAM-PAIR (finding F26; shared with C12): wherever call arguments are paired positionally with the parameters of a
    signature, parameters that have a default (padding) are skipped, as they are in the argument count"""
    from rules import hirq
    rep.rule("R-PARAM-PAIR", "arguments are paired with the parameters that take one: every zip of call arguments with Signature::params filters out "
                             "parameters with a default (padding), consistently with Signature::min_args / max_args")
    sites = 0
    for fid in ("context::defs::Signature::match_params_to_args", E + "check_expr_call"):
        f = db.fn(fid)
        rep.fn(f)
        L = hirq.lets(f)
        for n in hir_walk(f.hir):
            if n.get("k") not in ("Call", "MCall"):
                continue
            c = n.get("f") or ""
            if not (c.endswith("Iterator::zip") or c.endswith("itertools::zip") or c.endswith("::multizip") or c.endswith("izip")):
                continue
            sides = ([n["r"]] if n.get("k") == "MCall" else []) + list(n.get("a", []))
            for side in sides:
                feats = hirq.features(f, side, L)
                if not any(t == "field" and v == "params" for t, v in feats):
                    continue
                sites += 1
                ok = hirq.has_call(feats, "Iterator::filter") and any(t == "field" and v == "default" for t, v in
                                                                       set().union(*[hirq.features(f, cl, L) for cl in hir_walk(side) if cl.get("k") == "Closure"] or [set()]))
                rep.check(ok, "R-PARAM-PAIR", "%s|params side of zip" % fid.rsplit("::", 1)[-1], "%s:%d" % (f.file, n.get("ln", f.line)),
                          "parameters with a default are filtered out before pairing",
                          "%s pairs the arguments with ALL parameters of the signature: the argument after a padding parameter is checked against the padding "
                          "(a signature like `S_f` or the built-in `Sb(imm)---fff` cannot be called)" % fid.rsplit("::", 1)[-1])
    ma = db.fn("context::defs::Signature::min_args")
    rep.fn(ma)
    fm = hirq.features(ma, ma.hir, hirq.lets(ma))
    for cl in hir_walk(ma.hir):
        if cl.get("k") == "Closure":
            fm |= hirq.features(ma, cl["b"], {})
    rep.check(any(t == "field" and v == "default" for t, v in fm), "R-PARAM-PAIR", "min_args|counts parameters without default", ma.loc,
              "the argument count excludes parameters with a default", "Signature::min_args no longer looks at `default`")
    rep.floor("positional pairings of arguments with Signature::params", sites, 2)


def rule_partial_iter(db, rep):
    """R-PARTIAL-ITER: shared with C04 (an unchecked child reaches passes that panic on type errors)"""
    # ---------------- no partial iteration over AST children in the checker
    dropping = ("map_while", "take_while", "skip_while", "take", "step_by")
    n_iter = 0
    for g in db.fns.values():
        if g.gen or not g.id.startswith(("passes::type_check::", "<passes::type_check::")):
            continue
        rep.fn(g)
        for bi, t in g.calls():
            c = t.get("f", "")
            if not c.startswith("core::iter::traits::iterator::Iterator::"):
                continue
            ga = " ".join(t.get("ga", []))
            if "ast::" not in ga:
                continue
            n_iter += 1
            name = c.rsplit("::", 1)[-1]
            if name in dropping:
                rep.bad("R-PARTIAL-ITER", "%s|%s" % (g.id, name), "%s:%d" % (g.file, t["ln"]),
                        "%s() over AST nodes in the type checker: elements after the cut-off are never type-checked" % name)
    rep.check(True, "R-PARTIAL-ITER", "type_check|iterator-adaptors-over-ast", db.fn(E + "check_expr").loc,
              "%d iterator calls over AST nodes inspected; none drops elements" % n_iter)
    rep.floor("iterator calls over AST nodes in type_check", n_iter, 3)



def run(db, tier):
    rep = Report("C09", tier, EXPLANATION, RULE)
    rep.rule("R-VISIT", "a visitor arm for a variant with AST children visits all of them, delegates to ast::walk_*, or rejects")
    rep.rule("R-ACCEPT", "accept(op, ty) by the checker <=> defined(op, ty) in const_eval, for every cell")
    rep.rule("R-RESULT-TY", "static result type of an accepted (op, ty) == ScalarValue constructor of the evaluator arm")
    rep.rule("R-EXPR-TABLES", "check_expr and compute_ty list every Expr variant and agree on constant / helper results")
    rep.rule("R-MUSTCALL", "the named check function calls the named requirement on its path")
    rep.rule("R-ARITY", "call arity and parameter types are compared against the signature")
    rep.rule("R-PARTIAL-ITER", "the checker never walks a collection of AST nodes through an element-dropping adaptor (map_while/take_while/skip_while/take/step_by): every child is checked wherever it sits")

    # ---------------- (1) traversal
    stmt_children = visit.walker_children(db, "ast::ref_::walk_stmt", "ast::StmtKind")
    rep.floor("StmtKind variants in walker", len(stmt_children), 19)
    with_kids = [v for v, k in stmt_children.items() if k]
    rep.floor("StmtKind variants with children", len(with_kids), 12)
    n = visit.check_visitor(db, rep, "R-VISIT", TC_VISITOR + "visit_stmt", "ast::StmtKind", stmt_children,
                            {"ast::ref_::walk_stmt"})
    rep.floor("type_check visit_stmt child-bearing arms", n, 12)
    item_children = visit.walker_children(db, "ast::ref_::walk_item", "ast::Item")
    visit.check_visitor(db, rep, "R-VISIT", TC_VISITOR + "visit_item", "ast::Item", item_children, {"ast::ref_::walk_item"})
    # jump: override must delegate (it has a match only for documentation)
    f = db.fn(TC_VISITOR + "visit_jump")
    rep.fn(f)
    rep.check("ast::ref_::walk_jump" in arms.calls_in(f.hir), "R-VISIT", TC_VISITOR + "visit_jump|delegates", f.loc,
              "visit_jump delegates to walk_jump", "visit_jump does not call walk_jump")

    # ---------------- (2)+(3) operator tables
    T = optables.build(db)
    for fid in (optables.F_BIN_CHECK, optables.F_UN_CHECK, optables.F_BIN_TY, optables.F_UN_TY,
                optables.F_UN_EVAL, optables.F_BIN_CLASS):
        rep.fn(db.fn(fid))
    rep.fn(T.f_bin_eval)
    rep.floor("binary operators", len(T.binops), 19)
    rep.floor("unary operators", len(T.unops), 14)
    rep.check(T.exact_eq, "R-ACCEPT", "require_exact|is-equality", db.fn(optables.F_REQ_EXACT_EXPR).loc,
              "_require_exact(ty, expected) accepts iff ty == expected", "_require_exact no longer tests ty == expected")
    rep.check(T.bin_check_same, "R-ACCEPT", "binop_check|require_same", db.fn(optables.F_BIN_CHECK).loc,
              "binop_check requires both operands to have the same type",
              "binop_check does not call require_same: mixed operand types would be accepted")
    rep.check(T.bin_eval_mixed_never, "R-ACCEPT", "const_eval|mixed-types-undefined", T.f_bin_eval.loc,
              "mixed operand types fall into the uncaught_type_error arm of const_eval",
              "const_eval's fallback arm for mixed operand types is not the diverging type-error arm")
    cells = 0
    for op in T.binops:
        cls = T.bin_class.get(op)
        req = T.bin_check.get(cls)
        for ty in T.stys:
            cells += 1
            key = "binop|%s|%s" % (optables.short(op), ty)
            loc = db.fn(optables.F_BIN_CHECK).loc
            if not isinstance(req, str):
                rep.bad("R-ACCEPT", key, loc, "operator class %s of %s has no require_* in binop_check" % (cls, op))
                continue
            accept = ty in T.accepts[req]
            a = T.bin_eval.get((op, ty))
            if a is None:
                defined = False     # no (ty, ty) arm in const_eval: falls to the `_ => uncaught_type_error()` arm
                rty = "never"
            else:
                rty = optables.eval_result_ty(a)
                defined = rty != "never"
            if a is not None:
                loc = "%s:%d" % (T.f_bin_eval.file, T.bin_eval_arm[(op, ty)]["ln"])
            rep.check(accept == defined, "R-ACCEPT", key, loc,
                      "checker %s, evaluator %s" % ("accepts" if accept else "rejects", "defined" if defined else "undefined"),
                      "checker %s (%s -> %s) but evaluator is %s" % ("accepts" if accept else "rejects", cls and optables.short(cls),
                                                                    optables.short(req), "defined" if defined else "undefined (uncaught_type_error)"))
            if accept and defined:
                st = T.bin_ty.get(cls)
                st = ty if st == "arg" else st
                rep.check(st == rty, "R-RESULT-TY", key, loc, "static %s == dynamic %s" % (st, rty),
                          "static result type %s but const_eval constructs ScalarValue::%s" % (st, rty))
    for op in T.unops:
        req = T.un_check.get(op)
        for ty in T.stys:
            cells += 1
            key = "unop|%s|%s" % (optables.short(op), ty)
            loc = db.fn(optables.F_UN_CHECK).loc
            if not isinstance(req, str):
                rep.bad("R-ACCEPT", key, loc, "unop_check has no require_* for %s" % op)
                continue
            accept = ty in T.accepts[req]
            a = T.un_eval.get((op, ty), ("never",))
            rty = optables.eval_result_ty(a)
            defined = rty != "never"
            if (op, ty) in T.un_eval_arm:
                loc = "%s:%d" % (db.fn(optables.F_UN_EVAL).file, T.un_eval_arm[(op, ty)]["ln"])
            rep.check(accept == defined, "R-ACCEPT", key, loc,
                      "checker %s, evaluator %s" % ("accepts" if accept else "rejects", "defined" if defined else "undefined"),
                      "checker %s (%s) but evaluator is %s" % ("accepts" if accept else "rejects", optables.short(req),
                                                               "defined" if defined else "undefined (uncaught_type_error)"))
            if accept and defined and rty != "nonconst":
                st = T.un_ty.get(op)
                st = ty if st == "arg" else st
                rep.check(st == rty, "R-RESULT-TY", key, loc, "static %s == dynamic %s" % (st, rty),
                          "static result type %s but const_eval constructs ScalarValue::%s" % (st, rty))
    rep.extra["operator_type_cells"] = cells
    rep.extra["exhaustive_operator_table"] = True

    # ---------------- check_expr vs compute_ty
    fce = db.fn(E + "check_expr")
    fct = db.fn(TC + "<impl ast::Expr>::compute_ty")
    rep.fn(fce)
    rep.fn(fct)
    mce = arms.first_match(fce, db, "ast::Expr")
    mct = arms.first_match(fct, db, "ast::Expr")
    exprs = arms.adt_variants(db, "ast::Expr")
    rep.floor("Expr variants", len(exprs), 12)
    tce = {}
    tct = {}
    for m, t in ((mce, tce), (mct, tct)):
        for vs, arm in arms.simple_table(m):
            for v in vs:
                t.setdefault(v, arm)
    for v in exprs:
        key = "expr|%s" % optables.short(v)
        a, b = tce.get(v), tct.get(v)
        if a is None or b is None:
            rep.bad("R-EXPR-TABLES", key, fce.loc, "variant %s is not listed explicitly in %s" % (v, "check_expr" if a is None else "compute_ty"))
            continue
        loc = "%s:%d" % (fce.file, a["ln"])
        ab = arms.abstract(b["b"])
        ca = arms.calls_in(a["b"])
        cb = arms.calls_in(b["b"])
        # constant result on the compute side?
        const_b = _const_ty(ab)
        if const_b is not None:
            aa = arms.abstract(a["b"])
            const_a = _const_ty(aa)
            if const_a is not None:
                rep.check(const_a == const_b, "R-EXPR-TABLES", key, loc, "both %s" % const_b,
                          "check_expr gives %s, compute_ty gives %s" % (const_a, const_b))
            else:
                need = E + "require_" + const_b.lower()
                alt = "context::defs::Defs::enum_ty"
                ok = need in ca or alt in ca
                rep.check(ok, "R-EXPR-TABLES", key, loc,
                          "compute_ty says %s; check_expr enforces it (%s)" % (const_b, "require_" + const_b.lower() if need in ca else "enum_ty"),
                          "compute_ty says %s but check_expr neither returns that constant nor calls %s" % (const_b, need))
            continue
        helpers = [h for h in (TC + "<impl ast::Expr>::binop_ty", TC + "<impl ast::Expr>::unop_ty") if h in cb]
        if helpers:
            rep.check(all(h in ca for h in helpers), "R-EXPR-TABLES", key, loc, "both use %s" % helpers[0].rsplit("::", 1)[-1],
                      "compute_ty uses %s but check_expr does not" % helpers[0])
            continue
        rep.ok("R-EXPR-TABLES", key, loc, "listed in both tables (result depends on sub-expressions / signatures: not mechanically compared; debug_assert_eq! in check_expr covers it at run time)")
    # per-variant requirements inside check_expr
    need = {"ast::Expr::BinOp": [E + "binop_check"], "ast::Expr::UnOp": [E + "unop_check"],
            "ast::Expr::XcrementOp": [E + "require_int", E + "check_var"],
            "ast::Expr::Ternary": [E + "require_int", E + "require_same"], "ast::Expr::DiffSwitch": [E + "require_same"],
            "ast::Expr::Call": [E + "check_expr_call"], "ast::Expr::Var": [E + "check_var"]}
    for v, reqs in need.items():
        a = tce.get(v)
        for r in reqs:
            key = "check_expr|%s|%s" % (optables.short(v), r.rsplit("::", 1)[-1])
            if a is None:
                rep.bad("R-MUSTCALL", key, fce.loc, "no arm for %s" % v)
                continue
            rep.check(r in arms.calls_in(a["b"]), "R-MUSTCALL", key, "%s:%d" % (fce.file, a["ln"]),
                      "arm calls %s" % r.rsplit("::", 1)[-1], "check_expr arm for %s no longer calls %s" % (v, r))

    # ---------------- must-call
    for ent in MUST_CALL:
        fn_id, callee_id, why = ent[0], ent[1], ent[2]
        mode = ent[3] if len(ent) > 3 else "all-paths"
        f = db.fn(fn_id)
        rep.fn(f)
        alts = list(callee_id) if isinstance(callee_id, tuple) else [callee_id]
        callee_id = alts[0]
        key = "%s|%s" % (fn_id, "+".join(a.rsplit("::", 1)[-1] for a in alts))
        if mode == "present":
            calls_here = db.reachable([f.id])     # transitive: a refactor through a helper keeps the obligation
            rep.check(any(a in calls_here for a in alts), "R-MUSTCALL", key, f.loc, why + " (conditional requirement: presence)",
                      "%s no longer calls %s (%s)" % (fn_id, callee_id, why))
            continue
        calls = set(arms.calls_in(f.hir))
        in_closure = False
        for c in db.children.get(f.id, []):
            for _, t in c.calls():
                if t.get("f") == callee_id:
                    in_closure = True
        if in_closure and callee_id not in set(t.get("f") for _, t in f.calls()):
            # the requirement is applied per element inside a closure (iterator adaptor): presence only
            rep.ok("R-MUSTCALL", key, f.loc, why + " (inside a per-element closure)")
            continue
        ok, bad_ret = flow.must_pass(f, alts)
        rep.check(ok, "R-MUSTCALL", key, f.loc, why + " (on every non-error path to the return)",
                  "%s can return normally without calling %s (%s)%s" % (fn_id, callee_id, why, "" if bad_ret is None else "; offending return in bb%d" % bad_ret))

    rule_partial_iter(db, rep)
    rule_param_pair(db, rep)

    # ---------------- arity / parameter types (MIR)
    f = db.fn(E + "check_expr_call")
    rep.fn(f)
    d = flow.Defs(f)
    lo = hi = False
    for c in flow.comparisons(f, d):
        if c["op"] == "Le":
            if flow.has_call_source(c["a"], "Signature::min_args") and flow.has_call_source(c["b"], "::len"):
                lo = True
            if flow.has_call_source(c["a"], "::len") and flow.has_call_source(c["b"], "Signature::max_args"):
                hi = True
    rep.check(lo, "R-ARITY", "check_expr_call|min_args<=len", f.loc, "min_args <= args.len() is tested", "no `min_args() <= args.len()` comparison")
    rep.check(hi, "R-ARITY", "check_expr_call|len<=max_args", f.loc, "args.len() <= max_args is tested", "no `args.len() <= max_args()` comparison")
    # ---------------- const declarations: initializer type == declared type
    rep.rule("R-DECL-TY", "every declaration form compares the initializer's type with the declared type: locals in check_single_var_decl "
                          "(R-MUSTCALL), `const T x = e;` items in the visitor's own ConstVar arm")
    vi = db.fn(TC_VISITOR + "visit_item")
    rep.fn(vi)
    cv_arm = None
    for n in hir_walk(vi.hir):
        if n.get("k") == "Match" and n.get("src") == "Normal":
            for arm in n["arms"]:
                if any(x and "ast::Item::ConstVar" in x for x in arms.pat_sig(arm["p"])):
                    cv_arm = arm
    if cv_arm is None:
        rep.bad("R-DECL-TY", "visit_item|ConstVar", vi.loc, "`const T x = e;` is only walked generically: nothing compares the type of e with T "
                "(e.g. `const int X = 1.5;` is accepted and a later pass panics on the mismatch)")
    else:
        fe = hirq_features(vi, cv_arm["b"])
        reach = db.reachable([c for t_, c in fe if t_ == "call" and c in db.fns]) | set(c for t_, c in fe if t_ == "call")
        ok_cmp = any(c.endswith("::_require_exact") or c.endswith("::_require_exact_expr") for c in reach)
        ok_chk = any(c.endswith("::check_expr") or c.endswith("::check_expr_as_value") for c in reach)
        rep.check(ok_cmp and ok_chk, "R-DECL-TY", "visit_item|ConstVar", "%s:%d" % (vi.file, cv_arm["ln"]),
                  "the initializer is type-checked and compared with the declared type",
                  "the ConstVar arm does not both check the initializer and compare its type with the declared type (check: %s, compare: %s)" % (ok_chk, ok_cmp))

    # ---------------- sigils only on numeric variables
    from rules import hirq
    rep.rule("R-SIGIL", "a sigil on a variable whose INHERENT type is string is an error")
    w = db.fn(E + "check_var_weak")
    rep.fn(w)
    Lw = hirq.lets(w)
    okm = None
    for n in hir_walk(w.hir):
        if n.get("k") == "Match" and n.get("src") == "Normal":
            sgs = [x for arm in n["arms"] for x in arms.pat_sig(arm["p"]) if x]
            if any("ScalarType::String" in x for x in sgs) and "VarType" in db.types[n["st"]]:
                okm = n
    if okm is None:
        raise MissingAnchor("match on the variable's type in check_var_weak")
    sf = hirq.features(w, okm["s"], Lw)
    rep.check(hirq.has_call(sf, "var_inherent_ty_from_ast") and not hirq.has_call(sf, "var_read_ty_from_ast"), "R-SIGIL", "check_var_weak|inherent type", w.loc,
              "the sigil rule looks at the declared (inherent) type of the variable",
              "the sigil rule is decided from %s: with a sigil present the read type is always numeric, so `$s` / `%%s` on a string is never rejected"
              % sorted(v.rsplit("::", 1)[-1] for t, v in sf if t == "call"))
    str_arm = [arm for arm in okm["arms"] if any(x and "ScalarType::String" in x for x in arms.pat_sig(arm["p"]))]
    rejects = False
    for arm in str_arm:
        for n in hir_walk(arm["b"]):
            if n.get("k") == "Match":
                for a2 in n["arms"]:
                    sg2 = arms.pat_sig(a2["p"])
                    if any(x and "Option::Some" in x for x in sg2) and any(m.get("k") == "Ret" for m in hir_walk(a2["b"])) \
                            and any((m.get("f") or "").endswith("Result::Err") for m in hir_walk(a2["b"])):
                        rejects = True
    rep.check(rejects, "R-SIGIL", "check_var_weak|string+sigil rejected", w.loc, "String with Some(sigil) returns Err", "a string variable with a sigil is no longer rejected")
    cv = db.fn(E + "check_var")
    ok_cv, _ = flow.must_pass(cv, [E + "check_var_weak"])
    rep.check(ok_cv, "R-SIGIL", "check_var|calls check_var_weak on every path", cv.loc, "every use of a variable applies the sigil rule", "check_var can succeed without check_var_weak")

    # every signature-based Ok (value derived from siggy.return_ty) is guarded by the arity test and comes after
    # the per-argument passes
    import re as _re
    accepts = []
    acc_ln = {}
    for bi, b in enumerate(f.blocks):
        if b.get("cleanup"):
            continue
        for s_ in b["s"]:
            if s_["r"] == "agg" and (s_.get("adt") or "").endswith("Result::Ok"):
                srcs = set()
                for o in s_["ops"]:
                    srcs |= d._op_sources(o, 0, set(), True)
                if any(x[0] == "field" and x[2] == "return_ty" for x in srcs):
                    accepts.append(bi)
                    acc_ln[bi] = s_["ln"]
    rep.floor("signature-based Ok results in check_expr_call", len(accepts), 1)
    kids = db.children.get(f.id, [])
    passes = []      # (bb, kind)
    for bi, t in f.calls():
        if not t.get("f", "").endswith("collect_with_recovery"):
            continue
        lines = [int(x) for x in _re.findall(r"closure@src/passes/type_check\.rs:(\d+):", " ".join(t.get("ga", [])))]
        for c in kids:
            if c.line in lines:
                cc = set(t2.get("f", "") for _, t2 in c.calls())
                for c2 in db.children.get(c.id, []):
                    cc |= set(t2.get("f", "") for _, t2 in c2.calls())
                if any(x.endswith("::check_expr_as_value") for x in cc) and any(cm["op"] in ("Ne", "Eq") for cm in flow.comparisons(c, flow.Defs(c))):
                    passes.append((bi, "param-types"))
                if any(x.endswith("ExprTypeChecker::<'_, '_>::check_expr") for x in cc):
                    passes.append((bi, "recursion"))
    dom = f.dominators()
    for k_, acc in enumerate(accepts):
        gb = flow.guards_before(f, acc, d)
        glo = any(c["op"] == "Le" and flow.has_call_source(c["a"], "Signature::min_args") and flow.has_call_source(c["b"], "::len") for c in gb)
        ghi = any(c["op"] == "Le" and flow.has_call_source(c["a"], "::len") and flow.has_call_source(c["b"], "Signature::max_args") for c in gb)
        rep.check(glo and ghi, "R-ARITY", "check_expr_call|accept-%d guarded by arity" % (k_ + 1), "%s:%d" % (f.file, acc_ln[acc]),
                  "the call is accepted only after min_args <= len <= max_args", "a call can be accepted (Ok with the signature's return type) without the arity test (min: %s, max: %s)" % (glo, ghi))
        for kind in ("param-types", "recursion"):
            okp = any(pb in dom.get(acc, ()) for pb, kd in passes if kd == kind)
            rep.check(okp, "R-ARITY", "check_expr_call|accept-%d after %s pass" % (k_ + 1, kind), "%s:%d" % (f.file, acc_ln[acc]),
                      "accepted only after the %s pass over all arguments" % kind,
                      "a call can be accepted without the %s pass over its arguments (argument expressions stay unchecked)" % kind)
    pty = False
    for c in db.children.get(f.id, []):
        dc = flow.Defs(c)
        for cmp_ in flow.comparisons(c, dc):
            if cmp_["op"] == "Ne" or cmp_["op"] == "Eq":
                srcs = cmp_["a"] | cmp_["b"]
                if flow.has_call_source(srcs, "check_expr_as_value") and any(s[0] == "field" and s[2] == "ty" for s in srcs):
                    pty = True
    rep.check(pty, "R-ARITY", "check_expr_call|arg_ty-vs-param_ty", f.loc, "argument type is compared with the parameter type",
              "no comparison between the checked argument type and the signature's parameter type")
    # ---------------- R-WALK-COND: conditions reach the checker as conditions
    rep.rule("R-WALK-COND", "the canonical statement walkers hand every `cond` child (conditional jumps, if/else-if chains, while and do-while) to "
                            "visit_cond, the hook where the type checker enforces int-only conditions; none is passed to visit_expr directly")
    for walker in ("ast::ref_::walk_stmt", "ast::mut_::walk_stmt"):
        w = db.fn(walker)
        rep.fn(w)
        n_cond = 0
        bad_c = []
        for n_ in hir_walk(w.hir):
            if n_.get("k") not in ("MCall", "Call"):
                continue
            fnm = n_.get("f") or ""
            args = list(n_.get("a", [])) + ([n_["r"]] if n_.get("k") == "MCall" else [])
            takes_cond = any(a_.get("k") == "Path" and a_.get("p") == "cond" for a_ in args)
            if not takes_cond:
                continue
            if fnm.endswith("::visit_cond"):
                n_cond += 1
            elif fnm.endswith("::visit_expr"):
                bad_c.append(n_.get("ln"))
        rep.check(n_cond >= 4 and not bad_c, "R-WALK-COND", walker.rsplit("::", 2)[-2] + "::walk_stmt", w.loc, "%d conditions, all through visit_cond" % n_cond,
                  "%s passes a `cond` to visit_expr (line %s; %d go through visit_cond): the int-only rule for conditions is not applied to that statement kind" % (walker, bad_c, n_cond))
    # ---------------- R-FUNC-STACK: the function whose return type `return` is checked against is the enclosing one
    import re as _re
    from rules import symeval as SY
    rep.rule("R-FUNC-STACK", "visit_item pushes a function's state before walking it and pops it on every path afterwards (a state left on the stack "
                             "makes later `return` statements be checked against the wrong function, or accepted outside any function)")
    SY.set_aliases([])
    vi = db.fn("<passes::type_check::Visitor<'_, '_> as ast::ref_::Visit>::visit_item")
    rep.fn(vi)
    paths = [p_ for p_ in SY.fn_paths(db, vi.id, effect_re=_re.compile(r"Vec::(push|pop)$|::walk_item$")) if p_[2] is None]
    n_push = 0
    bad = None
    for conds, events, fl, st in paths:
        depth = 0
        order = []
        for e in events:
            if e[0] != "effect":
                continue
            recv = SY.render(e[2][0]) if e[2] else ""
            if e[1] == "push" and recv == "self.cur_func_stack":
                depth += 1
                n_push += 1
                order.append("push")
            elif e[1] == "pop" and recv == "self.cur_func_stack":
                depth -= 1
                order.append("pop")
            elif e[1] == "walk_item":
                order.append("walk")
        if depth != 0 and bad is None:
            bad = ("unbalanced", order, [(k, v) for k, v, _ in conds])
        if "push" in order and order[:3] != ["push", "walk", "pop"] and bad is None:
            bad = ("order", order, [(k, v) for k, v, _ in conds])
    rep.check(bad is None and n_push >= 1, "R-FUNC-STACK", "visit_item|push-walk-pop", vi.loc, "%d paths; a function is pushed, walked and popped on each path that pushes" % len(paths),
              "visit_item has a path with %s stack use %s under %s" % (bad[0], bad[1], bad[2]) if bad else "visit_item no longer pushes a FuncState")
    return rep


def _const_ty(a):
    """ExprType::Value(ScalarType::X) -> 'X'"""
    if a[0] == "ctor" and a[1] == "value::ExprType::Value" and len(a) > 2:
        inner = a[2]
        if inner[0] in ("path", "ctor") and inner[1].startswith("value::ScalarType::"):
            return inner[1].rsplit("::", 1)[-1]
    return None
