"""C02 Compiling expressions and statements preserves what the script does (structural clauses)."""
from common import Report
from facts import MissingAnchor, hir_walk, op_local, op_place, place_local, place_proj
from rules import arms, flow

EXPLANATION = (
    "Static rules over llir::lower::stackless.  R-REUSE-GUARD: in lower_assign_direct_binop every reuse of the "
    "destination register (`compute_temporary_expr(.., var, data_x)` with the function's own destination `var`) is "
    "control-dependent on `expr_uses_var(<the OTHER operand>, var, ctx)` being false - operand identity is established "
    "through MIR parameter provenance (the operand classified into data_x vs the operand passed to expr_uses_var), not "
    "names; the unary case has no other operand.  expr_uses_var is a complete, alias-aware traversal: its visitor "
    "overrides only visit_var (so the canonical walker reaches every sub-expression, including difficulty switches) "
    "and compares AliasableIds of both sides.  R-TEMP-PAIR: in every function that calls define_temporary, every "
    "normal path from the definition to the return passes undefine_temporary (a temporary is always released), and "
    "the release is not followed by another use of the temporary's expression.  R-CMP-JMP: the two-part conditional "
    "jump emits the comparison before the jump.  R-NEGATE / R-DEMORGAN / R-COND-LOWER: the finite tables that carry the "
    "meaning of conditions into jump instructions are compared with the logic they must implement (operator complement "
    "table, if/unless swap, De Morgan split of && and ||, `!x` by keyword negation, bare `e` as `e != 0`, `unless (a op b)` "
    "by the complemented operator, `unless (--x)` by jumping over an unconditional jump); the argument of each emitted "
    "jump is traced through let-bindings to the parameter or fresh label it must be.  R-ALT: derived forms (`a op= b` via "
    "the binary instruction of the SAME operator with operands (a, b); `~x` as -1 - x; `-x` as -1 * x) and the operand "
    "order of every emitted arithmetic instruction (out, left, right), including the recursive elaboration steps that "
    "replace one side by a temporary.  Decides these necessary conditions; semantic equivalence of the "
    "emitted code over all register states is NOT decided.")
RULE = "instance = one destination-reuse site / temporary definition / two-part jump"

S = "llir::lower::stackless::SingleSubLowerer::<'_, '_>::"


def run(db, tier):
    rep = Report("C02", tier, EXPLANATION, RULE)
    rep.rule("R-REUSE-GUARD", "the destination is reused for a sub-expression only if the other operand does not read it")
    rep.rule("R-TEMP-PAIR", "temporaries are released on every path, after their last use")
    rep.rule("R-CMP-JMP", "two-part conditional jumps emit cmp before jmp")

    # ---------------- R-REUSE-GUARD
    f = db.fn(S + "lower_assign_direct_binop")
    rep.fn(f)
    d = flow.Defs(f)
    names = [p.get("n") for p in f.d["hparams"]]
    sites = flow.calls_to(f, "SingleSubLowerer::<'_, '_>::compute_temporary_expr")
    rep.floor("destination-reuse sites in lower_assign_direct_binop", len(sites), 2)

    def param_of(o):
        p = op_place(o)
        if p is None:
            return None
        cp = flow.canon_place(f, p, d)
        return cp[1] if cp[0] == "param" else None

    var_param = None
    for i, (bi, t) in enumerate(sites):
        # which operand was classified into the data argument?
        data_src = d._op_sources(t["a"][3], 0, set(), True) if len(t["a"]) > 3 else set()
        cls_bbs = [s[2] for s in data_src if s[0] == "call" and s[1].endswith("classify_expr")]
        operand = None
        for cb in cls_bbs:
            tt = f.blocks[cb]["t"]
            operand = param_of(tt["a"][1]) if len(tt["a"]) > 1 else None
        dest_param = param_of(t["a"][2]) if len(t["a"]) > 2 else None
        guards = flow.bool_call_guards(f, bi, "llir::lower::stackless::expr_uses_var", d)
        ok = False
        detail = "no expr_uses_var test controls this reuse"
        for gb, gt in guards:
            other = param_of(gt["a"][0])
            gvar = param_of(gt["a"][1]) if len(gt["a"]) > 1 else None
            if other is not None and operand is not None and other != operand and gvar == dest_param and dest_param is not None:
                ok = True
            else:
                detail = "expr_uses_var is applied to parameter %s (var %s) while the sub-expression being computed comes from parameter %s (destination %s)" % (other, gvar, operand, dest_param)
        key = "lower_assign_direct_binop|reuse-%d" % (i + 1)
        rep.check(ok, "R-REUSE-GUARD", key, "%s:%d" % (f.file, t["ln"]),
                  "destination reused for operand #%s only if operand #%s does not read it" % (operand, [g for g in (param_of(gt["a"][0]) for _, gt in guards)][:1]),
                  "the destination register is reused for a sub-expression although the other operand may still read it: " + detail)
    # the reused destination must have the type of the value computed into it
    for g_, nm in ((f, "lower_assign_direct_binop"), (db.fn(S + "lower_assign_direct_unop"), "lower_assign_direct_unop")):
        dg_ = flow.Defs(g_)
        for i, (bi, t) in enumerate(flow.calls_to(g_, "SingleSubLowerer::<'_, '_>::compute_temporary_expr")):
            gs = flow.bool_call_guards(g_, bi, "PartialEq::eq", dg_, dominate=False)
            ty_ok = False
            for gb, gt in gs:
                sa = flow.deep_sources(g_, dg_, gt["a"][0])
                sb = flow.deep_sources(g_, dg_, gt["a"][1])
                both = sa | sb
                if any(x[0] == "field" and x[2] == "tmp_ty" for x in both) and any(x[0] == "call" and x[1].endswith(("binop_ty", "unop_ty")) for x in both):
                    ty_ok = True
            rep.check(ty_ok, "R-REUSE-GUARD", "%s|reuse-%d|type" % (nm, i + 1), "%s:%d" % (g_.file, t["ln"]),
                      "the destination is reused only if the temporary's type equals the type of the assigned expression",
                      "the destination register is reused for a sub-expression without comparing the temporary's type with the type of the "
                      "right-hand side: a value of the other type (e.g. a float intermediate of an int-valued comparison) is computed into it")
    u = db.fn(S + "lower_assign_direct_unop")
    rep.fn(u)
    us = flow.calls_to(u, "compute_temporary_expr")
    rep.check(len(us) == 1, "R-REUSE-GUARD", "lower_assign_direct_unop|single-operand", u.loc, "unary case: no other operand exists, reuse is unconditional on aliasing",
              "expected exactly one reuse site in the unary case, found %d" % len(us))
    ev = db.fn("llir::lower::stackless::expr_uses_var")
    rep.fn(ev)
    impls = [x for x in db.fns.values() if x.id.startswith("<llir::lower::stackless::expr_uses_var::Visitor<'_, '_> as ast::ref_::Visit>::")]
    onames = sorted(x.id.rsplit("::", 1)[-1] for x in impls)
    rep.check(onames == ["visit_var"], "R-REUSE-GUARD", "expr_uses_var|full-traversal", ev.loc, "the visitor overrides only visit_var: every sub-expression is walked by the canonical walker",
              "expr_uses_var's visitor overrides %s: sub-expressions may be skipped" % onames)
    n_alias = sum(1 for g in [ev] + impls for _, t in g.calls() if t.get("f", "").endswith("var_aliasable_id"))
    rep.check(n_alias >= 2, "R-REUSE-GUARD", "expr_uses_var|alias-aware", ev.loc, "both sides are compared by AliasableId (register aliases and sigils are seen through)",
              "expr_uses_var does not compare var_aliasable_id of both sides")
    starts = [t for _, t in ev.calls() if t.get("f", "").rsplit("::", 1)[-1] == "visit_expr"]
    rep.check(bool(starts), "R-REUSE-GUARD", "expr_uses_var|visits-the-expression", ev.loc, "the whole expression is visited", "expr_uses_var no longer visits the expression")

    # ---------------- R-TEMP-PAIR
    n_def = 0
    for g in sorted(db.fns.values(), key=lambda x: x.id):
        if g.gen or not g.id.startswith("llir::lower::stackless::"):
            continue
        defs = flow.calls_to(g, "SingleSubLowerer::<'_, '_>::define_temporary")
        if not defs or g.id.endswith("::define_temporary"):
            continue
        rep.fn(g)
        undefs = set(b for b, _ in flow.calls_to(g, "SingleSubLowerer::<'_, '_>::undefine_temporary"))
        errs = flow.error_exit_blocks(g)
        for k, (bi, t) in enumerate(defs):
            n_def += 1
            start = t.get("t")
            reach = g.reachable_from(start, avoid=undefs | errs) if start is not None else set()
            leak = [b for b in reach if g.blocks[b]["t"]["k"] == "ret"]
            key = "%s|define_temporary-%d" % (g.id, k + 1)
            # deferred release: ids collected in a vec and released in a later loop (lower_instruction-style)
            deferred = False
            if leak and g.closure:
                deferred = _released_by_parent(db, g, start)
            elif leak:
                dd = flow.Defs(g)
                pushes = flow.calls_to(g, "Vec::<T, A>::push")
                deferred = bool(undefs) and any(pb in g.reachable_from(start) for pb, _ in pushes) and all(
                    any(ub in g.dominators().get(r, ()) or True for ub in undefs) for r in leak) and _release_loop_dominates_returns(g, undefs, errs)
            rep.check(not leak or deferred, "R-TEMP-PAIR", key, "%s:%d" % (g.file, t["ln"]),
                      "released by undefine_temporary on every normal path" + (" (collected and released in a loop before returning)" if deferred else ""),
                      "a normal return is reachable after this define_temporary without undefine_temporary: the register is never freed")
    rep.floor("define_temporary call sites", n_def, 7)

    # ---------------- R-CMP-JMP
    cj = db.fn(S + "lower_cond_jump_intrinsic")
    rep.fn(cj)
    ok = False
    for n in hir_walk(cj.hir):
        if n.get("k") == "Match":
            for arm in n["arms"]:
                sg = arms.pat_sig(arm["p"])
                if any(s and "CondJmp::TwoPart" in s for s in sg):
                    calls = [x for x in hir_walk(arm["b"]) if x.get("k") in ("Call", "MCall") and (x.get("f") or "").endswith("lower_intrinsic_by_opcode")]
                    if len(calls) == 2:
                        a0 = [y["p"] for y in hir_walk(calls[0]["a"][2]) if y.get("k") == "Path" and y.get("rk") == "Local"] if len(calls[0]["a"]) > 2 else []
                        a1 = [y["p"] for y in hir_walk(calls[1]["a"][2]) if y.get("k") == "Path" and y.get("rk") == "Local"] if len(calls[1]["a"]) > 2 else []
                        bound = {}
                        from rules.visit import _strip
                        p = _strip(arm["p"])
                        if p["k"] == "TS" and p["ps"]:
                            p = _strip(p["ps"][0])
                        if p["k"] == "Struct":
                            for fname, q in p["fs"]:
                                q = _strip(q)
                                if q["k"] == "Bind":
                                    bound[q["n"]] = fname
                        first = [bound.get(x) for x in a0 if x in bound]
                        second = [bound.get(x) for x in a1 if x in bound]
                        ok = first[:1] == ["cmp_opcode"] and second[:1] == ["jmp_opcode"]
    rep.check(ok, "R-CMP-JMP", "TwoPart|cmp-then-jmp", cj.loc, "the comparison instruction is emitted before the jump instruction",
              "the TwoPart arm does not emit cmp_opcode first and jmp_opcode second")
    _cond_tables(db, rep)
    _symbolic_rules(db, rep)
    # ---- R-EMIT: a statement that reaches one of these lowering steps always produces an instruction
    rep.rule("R-EMIT", "the lowering functions for assignments, jumps and instruction calls emit something on every non-error path: a statement is "
                       "never dropped as a no-op (even `a = a;` is a mention of the register that keeps it out of the scratch pool, and a move the "
                       "script asked for)")
    EMITTERS = ("lower_eosd_call", "lower_reg_call", "lower_instruction", "lower_assign_op", "lower_assign_op_intrinsic", "lower_assign_direct_binop",
                "lower_assign_direct_unop", "lower_assign_direct_unop_intrinsic", "lower_assign_direct_ternary", "lower_uncond_jump",
                "lower_count_jump_or_bust", "lower_count_jump_intrinsic", "lower_cond_jump_comparison", "lower_cond_jump_intrinsic")
    ALL_LOWER = [g.id for g in db.fns.values() if g.id.startswith(S) and not g.closure and g.id.rsplit("::", 1)[-1].startswith("lower_")]
    emit_calls = ["::lower_intrinsic", "::lower_intrinsic_by_opcode", "Vec::<T, A>::push"] + ALL_LOWER
    for nm in EMITTERS:
        g = db.fn(S + nm)
        rep.fn(g)
        okm, badret = flow.must_pass(g, [c for c in emit_calls if c != g.id] + ([g.id] if any(t.get("f") == g.id for _, t in g.calls()) else []))
        rep.check(okm, "R-EMIT", nm, g.loc, "every non-error path emits an instruction (directly or through another lowering step)",
                  "%s can return Ok without emitting anything%s: the statement disappears from the compiled script" % (nm, "" if badret is None else " (return in bb%d)" % badret))
    # a register the explicit-register collector misses is handed out as a temporary and clobbered (rule shared with C05)
    from props import c05
    rep.rule("R-TRAVERSAL", "register collection and register substitution walk the same LowerArg shapes, recursively through DiffSwitch (shared with C05)")
    c05.rule_traversal(db, rep, db.fn(c05.AR))
    from props import c14
    rep.absorb(c14.run(db, rep.tier), rules=("R-SWITCH-MASK", "R-BITS"), why="difficulty-switch elaboration decides which copy of an instruction runs on each difficulty")
    return rep


COMPLEMENT = {"Eq": "Ne", "Ne": "Eq", "Lt": "Ge", "Ge": "Lt", "Le": "Gt", "Gt": "Le"}


def _last(p):
    return p.rsplit("::", 1)[-1]


def _cond_tables(db, rep):
    """R-NEGATE / R-DEMORGAN / R-COND-LOWER: the finite tables and call shapes that carry the meaning of
    `if`/`unless`, `!`, `&&`, `||` and comparisons into conditional-jump instructions."""
    from rules import hirq
    rep.rule("R-NEGATE", "negate_comparison maps every comparison operator to its logical complement (== != , < >= , <= >) and "
                         "nothing else to Some; CondKeyword::negate swaps if/unless")
    rep.rule("R-DEMORGAN", "`if (a||b)` / `unless (a&&b)` are split into two jumps with the same keyword and target; the other two "
                           "combinations jump over an unconditional jump with the NEGATED keyword on both operands (De Morgan)")
    rep.rule("R-COND-LOWER", "the remaining lowering steps of a conditional jump keep its meaning: `!x` negates the keyword, a bare "
                             "expression is compared with `!= 0`, `unless (a op b)` uses the complemented operator, `unless (--x)` "
                             "jumps over an unconditional jump")
    # ---- negate_comparison
    f = db.fn("ast::BinOpKind::negate_comparison")
    rep.fn(f)
    m = arms.first_match(f, db)
    seen = {}
    wild_none = False
    for arm in (m["arms"] if m else []):
        res = arms.abstract(arm["b"])
        for sg in arms.pat_sig(arm["p"]):
            if sg is None:
                wild_none = res == ("path", "core::option::Option::None") or res[:2] == ("ctor", "core::option::Option::None")
            else:
                seen[_last(sg)] = res
    rep.floor("negate_comparison arms", len(seen), 6)
    for op, res in sorted(seen.items()):
        want = COMPLEMENT.get(op)
        got = _last(res[2][1]) if res[0] == "ctor" and res[1].endswith("Option::Some") and len(res) > 2 and res[2][0] == "path" else None
        if want is None:
            ok = res[0] in ("path", "ctor") and res[1].endswith("Option::None")
            rep.check(ok, "R-NEGATE", "negate_comparison|" + op, "%s:%d" % (f.file, f.line), "non-comparison -> None", "non-comparison operator %s is given a negation" % op)
        else:
            rep.check(got == want, "R-NEGATE", "negate_comparison|" + op, "%s:%d" % (f.file, f.line), "%s -> %s" % (op, got),
                      "the negation of `%s` is `%s`, not its complement `%s`: `unless (a %s b)` and decompiled if/else chains change meaning" % (op, got, want, op))
    for op in COMPLEMENT:
        if op not in seen:
            rep.bad("R-NEGATE", "negate_comparison|" + op, f.loc, "comparison operator %s has no negation arm" % op)
    rep.check(wild_none, "R-NEGATE", "negate_comparison|others", f.loc, "every other operator -> None", "the catch-all arm does not return None")
    g = db.fn("ast::CondKeyword::negate")
    rep.fn(g)
    m = arms.first_match(g, db)
    tab = {}
    for arm in (m["arms"] if m else []):
        for sg in arms.pat_sig(arm["p"]):
            r = arms.abstract(arm["b"])
            tab[_last(sg) if sg else "_"] = _last(r[1]) if r[0] == "path" else str(r)
    rep.check(tab == {"If": "Unless", "Unless": "If"}, "R-NEGATE", "CondKeyword::negate", g.loc, "if <-> unless", "CondKeyword::negate is not the swap if<->unless: %s" % tab)

    # ---- && / ||
    f = db.fn(S + "lower_cond_jump_logic_binop")
    rep.fn(f)
    L = hirq.lets(f)
    table = {}
    mm = None
    for n in hir_walk(f.hir):
        if n.get("k") == "Match" and n.get("src") == "Normal" and n["s"].get("k") == "Tup":
            mm = n
            break
    if mm is None:
        raise MissingAnchor(" (keyword, binop) table in lower_cond_jump_logic_binop")
    # which tuple position is the keyword?
    for arm in mm["arms"]:
        tv = arms.tuple_variants(arm["p"])
        if not tv or any(len(x) != 1 for x in tv):
            continue
        names = sorted(_last(x[0]) for x in tv)
        r = arms.abstract(arm["b"])
        if r[0] == "lit":
            table[tuple(names)] = r[1]
    want = {("If", "LogicOr"): "true", ("If", "LogicAnd"): "false", ("LogicAnd", "Unless"): "true", ("LogicOr", "Unless"): "false"}
    bound = None
    for n in hirq.let_stmts(f.hir):
        if n.get("i") is mm:
            bound = n["p"].get("n")
    iff = hirq.find_if_on_local(f, bound) if bound else None
    if iff is None:
        raise MissingAnchor(" `if is_easy_case` in lower_cond_jump_logic_binop")
    for kk, vv in sorted(want.items()):
        rep.check(table.get(kk) == vv, "R-DEMORGAN", "easy-case|%s,%s" % kk, f.loc, "%s -> split=%s" % (kk, vv),
                  "(%s, %s) is classified as %s: splitting into two jumps with the same keyword is only valid for if/|| and unless/&&" % (kk[0], kk[1], table.get(kk)))

    def jumps(branch):
        out = []
        for c in hirq.call_seq(branch, ("::lower_cond_jump_non_count", "::lower_uncond_jump", "Vec::<T, A>::push")):
            out.append((_last(c["f"]), [hirq.features(f, a, L) for a in hirq.args_of(c)]))
        return out
    easy = jumps(iff["t"])
    hard = jumps(iff["el"])
    pnames = [p.get("n") for p in f.d["hparams"]]

    def operand(fe):
        return [x for x in ("a", "b") if hirq.has_local(fe, x)]
    ok = (len(easy) == 2 and all(n == "lower_cond_jump_non_count" for n, _ in easy)
          and all(hirq.has_local(a[2], "keyword") and not hirq.has_call(a[2], "::negate") for _, a in easy)
          and all(hirq.has_local(a[4], "goto") for _, a in easy)
          and [operand(a[3]) for _, a in easy] == [["a"], ["b"]])
    rep.check(ok, "R-DEMORGAN", "easy-case|two jumps, same keyword, same target", f.loc, "if(a) goto L; if(b) goto L",
              "the split case does not emit exactly `kw (a) goto L; kw (b) goto L`: %s" % [(n, [sorted(x)[:4] for x in a[2:5]]) for n, a in easy])
    ok = False
    detail = "expected `!kw (a) goto skip; !kw (b) goto skip; goto L; skip:`"
    if len(hard) == 4 and [n for n, _ in hard] == ["lower_cond_jump_non_count", "lower_cond_jump_non_count", "lower_uncond_jump", "push"]:
        j1, j2, u, pl = [a for _, a in hard]
        neg = all(hirq.has_call(j[2], "CondKeyword::negate") and hirq.has_local(j[2], "keyword") for j in (j1, j2))
        ops = [operand(j1[3]), operand(j2[3])] == [["a"], ["b"]]
        skip = all(hirq.has_call(j[4], "::gensym") and not hirq.has_local(j[4], "goto") for j in (j1, j2))
        unc = hirq.has_local(u[2], "goto") and not hirq.has_call(u[2], "::gensym")
        lab = hirq.has_ctor(pl[0], "LowerStmt::Label") and hirq.has_call(pl[0], "::gensym")
        same = True
        # both conditional jumps and the label use the same gensym'd local
        g1 = set(x for x in j1[4] if x[0] == "local") & set(x for x in j2[4] if x[0] == "local") & set(x for x in pl[0] if x[0] == "local")
        same = any(("call", c) in hirq.features(f, L[nm][0], L) for (_, nm) in g1 if nm in L for c in [v for t, v in hirq.features(f, L[nm][0], L) if t == "call" and v.endswith("::gensym")])
        ok = neg and ops and skip and unc and lab and same
        detail = "negated keyword on both: %s; operands a then b: %s; both jump to the fresh skip label: %s; then goto L: %s; then the skip label: %s/%s" % (neg, ops, skip, unc, lab, same)
    rep.check(ok, "R-DEMORGAN", "hard-case|negated jumps over an unconditional jump", f.loc, detail, "the non-split case is not lowered as De Morgan requires: " + detail)

    # ---- lower_cond_jump_non_count: `!x`, bare expression
    f = db.fn(S + "lower_cond_jump_non_count")
    rep.fn(f)
    L = hirq.lets(f)
    m = arms.first_match(f, db)
    n_arm = 0
    for arm in (m["arms"] if m else []):
        sgs = arms.pat_sig(arm["p"])
        body = arm["b"]
        calls = hirq.call_seq(body, ("::lower_cond_jump_comparison", "::lower_cond_jump_non_count", "::lower_cond_jump_logic_binop"))
        sg = sgs[0] if sgs else None
        if sg and "Expr::UnOp" in sg and "UnOpKind::Not" in sg:
            n_arm += 1
            ok = len(calls) == 1 and calls[0]["f"].endswith("lower_cond_jump_non_count")
            if ok:
                a = [hirq.features(f, x, L) for x in hirq.args_of(calls[0])]
                ok = hirq.has_call(a[2], "CondKeyword::negate") and hirq.has_local(a[4], "goto")
            rep.check(ok, "R-COND-LOWER", "non_count|!x", "%s:%d" % (f.file, arm["ln"]), "`kw (!x)` -> `negate(kw) (x)` with the same target",
                      "`!x` is not lowered by negating the keyword and keeping the target")
        elif sg is None and "g" not in arm:
            n_arm += 1
            ok = len(calls) == 1 and calls[0]["f"].endswith("lower_cond_jump_comparison")
            if ok:
                a = [hirq.features(f, x, L) for x in hirq.args_of(calls[0])]
                ok = (hirq.has_local(a[2], "keyword") and not hirq.has_call(a[2], "::negate") and hirq.has_ctor(a[4], "BinOpKind::Ne")
                      and ("lit", "0") in a[5] and hirq.has_local(a[6], "goto") and hirq.has_local(a[3], "expr"))
            rep.check(ok, "R-COND-LOWER", "non_count|bare expression", "%s:%d" % (f.file, arm["ln"]), "`kw (e)` -> `kw (e != 0)`",
                      "a bare condition is not lowered as `e != 0` with the same keyword and target")
        elif sg and "Expr::BinOp" in sg:
            n_arm += 1
            ok = len(calls) == 1
            if ok:
                a = [hirq.features(f, x, L) for x in hirq.args_of(calls[0])]
                ok = hirq.has_local(a[2], "keyword") and not hirq.has_call(a[2], "::negate") and hirq.has_local(a[-1], "goto")
            rep.check(ok, "R-COND-LOWER", "non_count|binop-%d" % n_arm, "%s:%d" % (f.file, arm["ln"]), "keyword and target passed through unchanged",
                      "a comparison / logic condition is dispatched with a changed keyword or target")
    rep.floor("lower_cond_jump_non_count arms", n_arm, 4)

    # ---- unless (a op b)
    f = db.fn(S + "lower_cond_jump_comparison")
    rep.fn(f)
    kwm = None
    for n in hir_walk(f.hir):
        if n.get("k") == "Match" and n.get("src") == "Normal" and db.types[n["st"]].endswith("ast::CondKeyword"):
            kwm = n
    if kwm is None:
        raise MissingAnchor(" match on keyword in lower_cond_jump_comparison")
    tab = {}
    for arm in kwm["arms"]:
        for sg in arms.pat_sig(arm["p"]):
            fe = hirq.features(f, arm["b"], {})
            tab[_last(sg) if sg else "_"] = "negated" if hirq.has_call(fe, "negate_comparison") else "same"
    rep.check(tab == {"If": "same", "Unless": "negated"}, "R-COND-LOWER", "comparison|unless uses the complemented operator", f.loc, str(tab),
              "`if` must keep the operator and `unless` must complement it; found %s" % tab)

    # ---- unless (--x)
    f = db.fn(S + "lower_count_jump_intrinsic")
    rep.fn(f)
    L = hirq.lets(f)
    m = arms.first_match(f, db)
    okc = False
    for arm in (m["arms"] if m else []):
        sg = arms.pat_sig(arm["p"])[0]
        if sg and sg.endswith("CondKeyword::Unless"):
            seq = hirq.call_seq(arm["b"], ("::lower_count_jump_intrinsic", "::lower_uncond_jump", "Vec::<T, A>::push"))
            if [_last(c["f"]) for c in seq] == ["lower_count_jump_intrinsic", "lower_uncond_jump", "push"]:
                a0 = [hirq.features(f, x, L) for x in hirq.args_of(seq[0])]
                a1 = [hirq.features(f, x, L) for x in hirq.args_of(seq[1])]
                a2 = [hirq.features(f, x, L) for x in hirq.args_of(seq[2])]
                okc = (hirq.has_ctor(a0[2], "CondKeyword::If") and hirq.has_call(a0[5], "::gensym") and not hirq.has_local(a0[5], "goto")
                       and hirq.has_local(a1[2], "goto") and hirq.has_ctor(a2[0], "LowerStmt::Label") and hirq.has_call(a2[0], "::gensym"))
    rep.check(okc, "R-COND-LOWER", "count-jump|unless (--x)", f.loc, "if (--x) goto skip; goto L; skip:",
              "`unless (--x) goto L` is not lowered as `if (--x) goto skip; goto L; skip:`")

    _alternatives(db, rep)


def _alternatives(db, rep):
    """R-ALT: operations that a language lacks are emitted through an equivalent instruction"""
    from rules import hirq
    rep.rule("R-ALT", "`a op= b` is emitted as `a = a op b` with the SAME operator and operand order (a first); `~x` as `-1 - x`; "
                      "`-x` as `-1 * x`; direct intrinsics take (out, operand) in that order")
    # corresponding_binop: variant names agree
    f = db.fn("ast::AssignOpKind::corresponding_binop")
    rep.fn(f)
    m = arms.first_match(f, db)
    n = 0
    for arm in (m["arms"] if m else []):
        r = arms.abstract(arm["b"])
        for sg in arms.pat_sig(arm["p"]):
            if sg is None:
                continue
            op = _last(sg)
            n += 1
            if op == "Assign":
                rep.check(r[0] in ("path", "ctor") and r[1].endswith("Option::None"), "R-ALT", "corresponding_binop|Assign", f.loc, "= has no operator", "`=` is given a binary operator")
            else:
                got = None
                bb = arms.unwrap_block(arm["b"])
                if r[0] == "ctor" and r[1].endswith("Option::Some") and bb.get("a"):
                    got = arms.resolve_token(db, bb["a"][0])
                    got = _last(got) if got else None
                rep.check(got == op, "R-ALT", "corresponding_binop|" + op, "%s:%d" % (f.file, arm["ln"]), "%s= -> %s" % (op, got),
                          "compound assignment `%s=` is computed with the operator `%s`" % (op, got))
    rep.floor("corresponding_binop arms", n, 12)

    # discover_alternatives: constants and operators of the derived forms
    f = db.fn("llir::intrinsic::alternatives::discover_alternatives")
    rep.fn(f)
    L = hirq.lets(f)
    want = {"BitNot": ("-1", "BinOpKind::Sub"), "Neg": ("-1", "BinOpKind::Mul")}
    found = {}
    for c in hirq.call_seq(f.hir, ("HashMap::<K, V, S, A>::insert",)):
        a = hirq.args_of(c)
        if len(a) != 2:
            continue
        kf = hirq.features(f, a[0], L)
        vf = hirq.features(f, a[1], L)
        if hirq.has_ctor(vf, "UnOp::ViaConstBinOp"):
            for op in want:
                if hirq.has_ctor(kf, "UnOpKind::" + op):
                    found[op] = (c, vf)
        if hirq.has_ctor(vf, "AssignOp::ViaBinOp"):
            ok = hirq.has_call(vf, "corresponding_binop")
            rep.check(ok, "R-ALT", "discover|assign-via-binop", "%s:%d" % (f.file, c["ln"]), "opcode looked up for corresponding_binop(assign_op)",
                      "the opcode of `a op= b` is not the one registered for the corresponding binary operator")
    for op, (lit, bop) in sorted(want.items()):
        if op not in found:
            rep.bad("R-ALT", "discover|" + op, f.loc, "no derived form registered for %s (anchor)" % op)
            continue
        c, vf = found[op]
        lits = sorted(v for t, v in vf if t == "lit")
        bops = sorted(_last(v) for t, v in vf if t == "ctor" and "BinOpKind::" in v)
        ok = lits == [lit] and bops == [_last(bop)]
        rep.check(ok, "R-ALT", "discover|" + op, "%s:%d" % (f.file, c["ln"]), "%s x == %s %s x" % (op, lit, _last(bop)),
                  "%s x is derived as constant %s with operator %s (expected %s with %s)" % (op, lits, bops, lit, _last(bop)))

    # emission order
    def arm_pushes(fid, variant):
        g = db.fn(S + fid)
        rep.fn(g)
        Lg = hirq.lets(g)
        for m in hir_walk(g.hir):
            if m.get("k") != "Match" or m.get("src") != "Normal":
                continue
            for arm in m["arms"]:
                if any(sg and variant in sg for sg in arms.pat_sig(arm["p"])):
                    return g, arm, hirq.pushes(g, arm["b"], Lg)
        raise MissingAnchor("%s arm in %s" % (variant, fid))

    def shape(pushes, names):
        out = []
        for fld, fe in pushes:
            who = [nm for nm in names if hirq.has_local(fe, nm)]
            out.append((fld, who[0] if len(who) == 1 else tuple(who)))
        return out
    g, arm, pu = arm_pushes("lower_assign_op_intrinsic", "AssignOp::ViaBinOp")
    sh = shape(pu, ("lowered_var", "lowered_rhs"))
    rep.check(sh == [("outputs", "lowered_var"), ("plain_args", "lowered_var"), ("plain_args", "lowered_rhs")], "R-ALT", "emit|a op= b via binop",
              "%s:%d" % (g.file, arm["ln"]), "out=a, args=(a, b)", "`a op= b` via the binary instruction must emit out=a, args=(a, b) in that order; found %s" % sh)
    g, arm, pu = arm_pushes("lower_assign_op_intrinsic", "AssignOp::Intrinsic")
    sh = shape(pu, ("lowered_var", "lowered_rhs"))
    rep.check(sh == [("outputs", "lowered_var"), ("plain_args", "lowered_rhs")], "R-ALT", "emit|a op= b intrinsic",
              "%s:%d" % (g.file, arm["ln"]), "out=a, args=(b)", "found %s" % sh)
    g, arm, pu = arm_pushes("lower_assign_direct_unop_intrinsic", "UnOp::ViaConstBinOp")
    sh = shape(pu, ("lowered_var", "a", "b"))
    rep.check(sh == [("outputs", "lowered_var"), ("plain_args", "a"), ("plain_args", "b")], "R-ALT", "emit|unop via const binop",
              "%s:%d" % (g.file, arm["ln"]), "out=v, args=(const, x)", "`-1 - x` / `-1 * x` must emit the constant first and the operand second; found %s" % sh)
    g, arm, pu = arm_pushes("lower_assign_direct_unop_intrinsic", "UnOp::Intrinsic")
    sh = shape(pu, ("lowered_var", "b"))
    rep.check(sh == [("outputs", "lowered_var"), ("plain_args", "b")], "R-ALT", "emit|unop intrinsic", "%s:%d" % (g.file, arm["ln"]), "out=v, args=(x)", "found %s" % sh)
    # conditional jumps: comparison operands in source order (both the single-instruction and the two-part form)
    for variant, want in (("CondJmp::Intrinsic", [("plain_args", "data_a"), ("plain_args", "data_b")]),
                          ("CondJmp::TwoPart", [("plain_args", "data_a"), ("plain_args", "data_b")])):
        g, arm, pu = arm_pushes("lower_cond_jump_intrinsic", variant)
        sh = shape(pu, ("data_a", "data_b"))
        rep.check(sh == want, "R-ALT", "emit|cond jump %s" % variant.rsplit("::", 1)[-1], "%s:%d" % (g.file, arm["ln"]), "args=(a, b)",
                  "a conditional jump must compare its operands in source order (a, b); found %s" % sh)
    # every label the lowerer creates itself carries the time of the statement being lowered
    n_lab = 0
    for g in sorted(db.fns.values(), key=lambda x: x.id):
        if g.gen or g.closure or not g.id.startswith(S) or g.hir is None:
            continue
        Lg2 = hirq.lets(g)
        for n in hir_walk(g.hir):
            if n.get("k") == "Struct" and n.get("p", "").endswith("LowerStmt::Label"):
                n_lab += 1
                te = dict((nm, e) for nm, e in n["fs"]).get("time")
                fe = hirq.features(g, te, {}) if te is not None else set()
                okl = (hirq.has_local(fe, "stmt_data") and ("field", "time") in fe and not any(t_ == "lit" for t_, _ in fe)) or \
                      (any(t_ == "local" for t_, _ in fe) and not any(t_ == "lit" for t_, _ in fe) and not hirq.has_local(fe, "stmt_data") and "gensym" not in str(n))
                rep.check(okl, "R-ALT", "label-time|%s|%d" % (g.id.rsplit("::", 1)[-1], n_lab), "%s:%d" % (g.file, n["ln"]),
                          "the label's time is the statement's time", "a label emitted while lowering does not carry the time of the statement being lowered "
                          "(instructions after it inherit the wrong time)")
    rep.floor("labels created by the stackless lowerer", n_lab, 3)

    # binop: out, a, b and operand positions preserved through the elaboration steps
    g = db.fn(S + "lower_assign_direct_binop")
    Lg = hirq.lets(g)
    prim = [c for c in hirq.call_seq(g.hir, ("::lower_intrinsic",))]
    sh = []
    if prim:
        for fld, fe in hirq.pushes(g, prim[-1], {}):
            who = [nm for t, nm in fe if t == "local"]
            sh.append((fld, who[0] if len(who) == 1 else tuple(sorted(who))))
    ok = len(sh) == 3 and sh[0][0] == "outputs" and sh[1][0] == "plain_args" and sh[2][0] == "plain_args"
    src = []
    if ok:
        for _, nm in sh[1:]:
            init = (Lg.get(nm) or [None])[0]
            scr = hirq.features(g, init["s"], {}) if isinstance(init, dict) and init.get("k") == "Match" else set()
            src.append([x for x in ("a", "b") if hirq.has_local(scr, x)])
        ok = src == [["a"], ["b"]] and hirq.has_local(hirq.features(g, Lg[sh[0][1]][0], {}), "var") if sh[0][1] in Lg else False
    rep.check(ok, "R-ALT", "emit|binop intrinsic", g.loc, "out=v, args=(value of a, value of b)",
              "a binary instruction must receive out=v and its operands in source order; found %s from %s" % (sh, src))
    rec = [c for c in hirq.call_seq(g.hir, ("::lower_assign_direct_binop",))]
    rep.floor("recursive elaboration calls in lower_assign_direct_binop", len(rec), 4)
    for i, c in enumerate(rec):
        a = hirq.args_of(c)
        fa = hirq.features(g, a[5], {})
        fb = hirq.features(g, a[7], {})
        la = sorted(nm for t, nm in fa if t == "local")
        lb = sorted(nm for t, nm in fb if t == "local")
        # exactly one side is replaced by a freshly computed value; the other side stays the same parameter on the same side
        ok = (la == ["a"] and lb and lb != ["b"] and "a" not in lb) or (lb == ["b"] and la and la != ["a"] and "b" not in la)
        if ok:
            new_side = lb if la == ["a"] else la
            init = hirq.let_before(Lg, new_side[0], c["ln"])
            fi = hirq.features(g, init, {}) if init is not None else set()
            want_data = "data_b" if la == ["a"] else "data_a"
            ok = hirq.has_local(fi, want_data) and (hirq.has_call(fi, "compute_temporary_expr") or hirq.has_call(fi, "define_temporary"))
        rep.check(ok, "R-ALT", "elaborate|recursive-%d" % (i + 1), "%s:%d" % (g.file, c["ln"]), "left stays left, right stays right; the replaced side holds that side's value",
                  "an elaboration step swaps or mixes the operands: left=%s right=%s" % (la, lb))

    _diff_masks(db, rep)


def _diff_masks(db, rep):
    """R-DIFF-MASK: each copy emitted for one case of a difficulty switch runs on (statement's difficulties AND the case's
    difficulties) OR the statement's aux flags"""
    rep.rule("R-DIFF-MASK", "the difficulty mask stored on a per-case copy of a statement is computed FROM the statement's own difficulty bits, "
                            "the case's bits and the statement's aux bits (data provenance through BitAnd / BitOr): a copy must not run on a "
                            "difficulty that the statement's label excludes")
    n = 0
    for fid, case_src in ((S + "lower_assign_diff_switch", "explicit_difficulty_cases"), ("llir::lower::elaborate_diff_switches", "explicit_case_bitmasks")):
        f = db.fn(fid)
        rep.fn(f)
        d = flow.Defs(f)
        for b in f.blocks:
            for st in b["s"]:
                if st["r"] == "agg" and (st.get("adt") or "").endswith("TimeAndDifficulty"):
                    o = dict(zip(st["fn"], st["ops"])).get("difficulty_mask")
                    if o is None:
                        continue
                    ds = flow.deep_sources(f, d, o)
                    calls = set(x[1] for x in ds if x[0] == "call")
                    if not any(c.endswith("BitAnd::bitand") or c.endswith("BitOr::bitor") for c in calls):
                        continue       # a plain copy of an existing TimeAndDifficulty
                    n += 1
                    need = {"difficulty_bits": any(c.endswith("DiffFlagDefs::difficulty_bits") for c in calls),
                            "aux_bits": any(c.endswith("DiffFlagDefs::aux_bits") for c in calls),
                            "case mask": any(c.endswith(case_src) for c in calls),
                            "statement mask": any(x[0] == "field" and x[2] == "difficulty_mask" for x in ds),
                            "BitAnd": any(c.endswith("BitAnd::bitand") for c in calls)}
                    missing = sorted(k for k, v in need.items() if not v)
                    rep.check(not missing, "R-DIFF-MASK", "%s|mask-%d" % (fid.rsplit("::", 1)[-1], n), "%s:%d" % (f.file, st["ln"]),
                              "mask = stmt & difficulty_bits & case | stmt & aux_bits",
                              "the mask of a per-difficulty copy is not derived from %s: the copy can run on difficulties the statement's own label excludes" % ", ".join(missing))
    rep.floor("per-case difficulty masks", n, 2)


def _release_loop_dominates_returns(g, undefs, errs):
    """every normal return is dominated by the header of a loop that contains an undefine_temporary call"""
    dom = g.dominators()
    headers = set()
    for ub in undefs:
        h = flow.innermost_header(g, ub)
        if h is not None:
            headers.add(h)
    if not headers:
        return False
    bypass = g.reachable_from(0, avoid=set(errs) | headers)
    return not any(b["t"]["k"] == "ret" and bi in bypass for bi, b in enumerate(g.blocks))


def _released_by_parent(db, cl, start):
    """the closure records the temporary's id in a captured Vec that the parent drains through undefine_temporary
    in a loop whose header dominates the parent's normal returns"""
    d = flow.Defs(cl)
    vec_origin = None
    for pb, t in flow.calls_to(cl, "Vec::<T, A>::push"):
        if pb in cl.reachable_from(start):
            p = op_place(t["a"][0])
            if p is not None:
                of, oc = flow.trace_to_origin(db, cl, p)
                if oc[0] in ("local", "call"):
                    vec_origin = (of, oc)
    if vec_origin is None:
        return False
    parent, oc = vec_origin
    undefs = set(b for b, _ in flow.calls_to(parent, "SingleSubLowerer::<'_, '_>::undefine_temporary"))
    if not undefs:
        return False
    dp = flow.Defs(parent)
    dom = parent.dominators()
    errs = flow.error_exit_blocks(parent)
    for ub in undefs:
        h = flow.innermost_header(parent, ub)
        if h is None:
            continue
        # the loop iterates the same Vec
        it_ok = False
        for bi, t in parent.calls():
            if t.get("f", "").endswith("IntoIterator::into_iter") or t.get("f", "").endswith("::into_iter") or t.get("f", "").endswith("Iterator::rev"):
                p = op_place(t["a"][0]) if t["a"] else None
                if p is not None:
                    cp = flow.canon_place(parent, p, dp)
                    if cp[0] == oc[0] and cp[1] == oc[1]:
                        it_ok = True
        rets = [bi for bi, b in enumerate(parent.blocks) if b["t"]["k"] == "ret"]
        bypass = parent.reachable_from(0, avoid=errs | {h})
        if it_ok and not any(r in bypass for r in rets):
            return True
    return False


def _split_args(txt):
    """top-level comma split of a rendered argument list"""
    out, depth, cur = [], 0, ""
    for ch in txt:
        if ch in "([{":
            depth += 1
        elif ch in ")]}":
            depth -= 1
        if ch == "," and depth == 0:
            out.append(cur.strip())
            cur = ""
        else:
            cur += ch
    if cur.strip():
        out.append(cur.strip())
    return out


def _strip_tmps(t):
    """results of define_temporary / compute_temporary_expr are already-evaluated temporaries, not re-evaluations of the expression"""
    if isinstance(t, tuple):
        if len(t) == 3 and t[0] == "app" and t[1] == "?" and t[2] and isinstance(t[2][0], tuple) and t[2][0][0] == "app" \
                and t[2][0][1].split("::")[-1] in ("define_temporary", "compute_temporary_expr", "allocate_temporary"):
            return ("sym", "<tmp>")
        return tuple(_strip_tmps(x) for x in t)
    return t


def _symbolic_rules(db, rep):
    """R-OPERAND-ORDER / R-EARLY-STORE by symbolic evaluation of the lowering functions (rules/symeval.py)"""
    import re
    from rules import symeval as SY
    L = S
    SY.set_aliases([])
    rep.rule("R-OPERAND-ORDER", "splitting a comparison into temporary + comparison keeps each operand on its own side: the temporary of <A> "
                                "takes A's place, the temporary of <B> takes B's place, atoms go to the intrinsic as (a, op, b)")
    rep.rule("R-EARLY-STORE", "on every path of the emitted code, an expression that is evaluated after the destination variable has been "
                              "written is guarded by !expr_uses_var(expression, destination) (label/jump structure of the emitted sequence "
                              "is followed: a store on one branch does not reach the other)")
    eff = ("lower_assign_op", "lower_cond_jump", "lower_uncond_jump", "lower_cond_jump_comparison", "lower_cond_jump_intrinsic",
           "define_temporary", "undefine_temporary", "lower_assign_direct_binop", "lower_assign_direct_unop", "lower_assign_direct_ternary",
           "compute_temporary_expr", "lower_intrinsic_by_opcode", "lower_assign_diff_switch", "lower_assign_op_intrinsic")
    # ---- R-OPERAND-ORDER
    f = db.fn(L + "lower_cond_jump_comparison")
    rep.fn(f)
    paths = [p for p in SY.fn_paths(db, f.id, effect_calls=eff) if p[2] is None]
    tmp_a = "?(define_temporary(self, stmt_data, ?(classify_expr(self, a)).NeedsElaboration.0)).1"
    tmp_b = "?(define_temporary(self, stmt_data, ?(classify_expr(self, b)).NeedsElaboration.0)).1"
    seen = {}
    for conds, events, fl, st in paths:
        arm = None
        for k, v, _ in conds:
            if k.startswith("match (?(classify_expr(self, a)), ?(classify_expr(self, b)))"):
                arm = v
        for e in events:
            if e[0] == "effect" and e[1] in ("lower_cond_jump_comparison", "lower_cond_jump_intrinsic"):
                args = [SY.render(x) for x in e[2]]
                seen.setdefault(arm, []).append((e[1], args))
    want = {
        "(NeedsElaboration,_)": ("lower_cond_jump_comparison", 4, tmp_a, 6, "b"),
        "(Simple,NeedsElaboration)": ("lower_cond_jump_comparison", 4, "a", 6, tmp_b),
        "(Simple,Simple)": ("lower_cond_jump_intrinsic", 3, "?(classify_expr(self, a)).Simple.0", 5, "?(classify_expr(self, b)).Simple.0"),
    }
    for arm, (callee, ia, ea, ib, eb) in want.items():
        calls = seen.get(arm, [])
        ok = bool(calls) and all(c == callee and len(a) > ib and a[ia] == ea and a[ib] == eb for c, a in calls)
        rep.check(ok, "R-OPERAND-ORDER", "lower_cond_jump_comparison|%s" % arm, f.loc, "left stays left (%s), right stays right (%s)" % (ea[:40], eb[:40]),
                  "in the %s case the comparison is continued as %s: the operands change sides while the operator stays the same" % (
                      arm, [(c, a[ia] if len(a) > ia else None, a[ib] if len(a) > ib else None) for c, a in calls]))
    # ---- R-EARLY-STORE
    n_fn = 0
    for g in sorted(db.fns.values(), key=lambda g: g.line):
        if not g.id.startswith(L) or g.closure:
            continue
        params = [p.get("n") for p in g.d.get("hparams", [])]
        if "var" not in params:
            continue
        exprs = [p for p in params if p in ("cond", "left", "right", "a", "b", "rhs", "whole_expr", "cases")]
        if not exprs:
            continue
        n_fn += 1
        rep.fn(g)
        try:
            paths = [p for p in SY.fn_paths(db, g.id, sinks=("self.out",), fresh_calls=("GensymContext::gensym",), effect_calls=eff) if p[2] is None]
        except RuntimeError as e:
            raise Broken("symbolic evaluation of %s failed: %s" % (g.id, e))
        bad = None
        n_paths = 0
        for conds, events, fl, st in paths:
            n_paths += 1
            cd = dict((k, v) for k, v, _ in conds)
            written = False           # None = unreachable
            at_label = {}
            for e in events:
                txt = SY.render_event(e)
                if e[0] == "emit" and "LowerStmt::Label" in txt:
                    m = re.search(r"label: ([^,}]+)", txt)
                    lab = m.group(1) if m else txt
                    inc = at_label.get(lab)
                    written = inc if written is None else (written or bool(inc))
                    continue
                if e[0] != "effect":
                    continue
                args = [SY.render(_strip_tmps(x)) for x in e[2]]
                dest = [m.group(1) for a in args for m in [re.search(r"destination: ([^,}]+)", a)] if m]
                used = [x for x in exprs if any(re.search(r"(^|[^A-Za-z_.])%s($|[^A-Za-z_])" % re.escape(x), re.sub(r"\b%s\.span\b" % re.escape(x), "", a)) for a in args[1:])]
                if written:
                    for x in used:
                        key = "expr_uses_var(%s, var, self.ctx)" % x
                        if cd.get(key) is not False and bad is None:
                            bad = (x, e[1], sorted((k, v) for k, v in cd.items() if "expr_uses_var" in k))
                if e[1] in ("lower_cond_jump",) and dest:
                    at_label[dest[0]] = bool(at_label.get(dest[0])) or bool(written)
                elif e[1] == "lower_uncond_jump" and dest:
                    at_label[dest[0]] = bool(at_label.get(dest[0])) or bool(written)
                    written = None
                elif written is not None and e[1] in ("lower_assign_op", "lower_assign_direct_binop", "lower_assign_direct_unop", "lower_assign_direct_ternary",
                                                      "compute_temporary_expr", "lower_assign_op_intrinsic", "lower_assign_diff_switch") and "var" in args[1:5]:
                    written = True
        rep.check(bad is None, "R-EARLY-STORE", g.id.rsplit("::", 1)[-1], g.loc, "%d emitted paths: nothing is evaluated after a store to the destination without the guard" % n_paths,
                  "`%s` is evaluated (by %s) after the destination variable was already written, and the path is not guarded by !expr_uses_var(%s, var) (guards on this path: %s)" % (
                      bad[0], bad[1], bad[0], bad[2]) if bad else "")
    rep.floor("lowering functions with a destination variable", n_fn, 5)
