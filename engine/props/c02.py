"""C02 Compiling expressions and statements preserves what the script does (structural clauses)."""
from common import Report
from facts import hir_walk, op_local, op_place, place_local, place_proj
from rules import arms, flow

EXPLANATION = (
    "Static rules over llir::lower::stackless.  R-REUSE-GUARD: in lower_assign_direct_binop every reuse of the "
    "destination register (`compute_temporary_expr(.., var, data_x)` with the function's own destination `var`) is "
    "control-dependent on `expr_uses_var(<the OTHER operand>, var, ctx)` being false - operand identity is established "
    "through MIR parameter provenance (the operand classified into data_x vs the operand passed to expr_uses_var), not "
    "names; the unary case has no other operand.  expr_uses_var is a complete, alias-aware traversal: its visitor "
    "overrides only visit_var (so the canonical walker reaches every sub-expression, including difficulty switches) "
    "and compares AliasableIds of both sides.  R-TEMP-PAIR: in every function that calls define_temporary, every "
    "normal path from the definition to the return passes undefine_temporary (a temporary is always released), and "
    "the release is not followed by another use of the temporary's expression.  R-CMP-JMP: the two-part conditional "
    "jump emits the comparison before the jump.  Decides these necessary conditions; semantic equivalence of the "
    "emitted code over all register states is NOT decided.")
RULE = "instance = one destination-reuse site / temporary definition / two-part jump"

S = "llir::lower::stackless::SingleSubLowerer::<'_, '_>::"


def run(db, tier):
    rep = Report("C02", tier, EXPLANATION, RULE)
    rep.rule("R-REUSE-GUARD", "the destination is reused for a sub-expression only if the other operand does not read it")
    rep.rule("R-TEMP-PAIR", "temporaries are released on every path, after their last use")
    rep.rule("R-CMP-JMP", "two-part conditional jumps emit cmp before jmp")

    # ---------------- R-REUSE-GUARD
    f = db.fn(S + "lower_assign_direct_binop")
    rep.fn(f)
    d = flow.Defs(f)
    names = [p.get("n") for p in f.d["hparams"]]
    sites = flow.calls_to(f, "SingleSubLowerer::<'_, '_>::compute_temporary_expr")
    rep.floor("destination-reuse sites in lower_assign_direct_binop", len(sites), 2)

    def param_of(o):
        p = op_place(o)
        if p is None:
            return None
        cp = flow.canon_place(f, p, d)
        return cp[1] if cp[0] == "param" else None

    var_param = None
    for i, (bi, t) in enumerate(sites):
        # which operand was classified into the data argument?
        data_src = d._op_sources(t["a"][3], 0, set(), True) if len(t["a"]) > 3 else set()
        cls_bbs = [s[2] for s in data_src if s[0] == "call" and s[1].endswith("classify_expr")]
        operand = None
        for cb in cls_bbs:
            tt = f.blocks[cb]["t"]
            operand = param_of(tt["a"][1]) if len(tt["a"]) > 1 else None
        dest_param = param_of(t["a"][2]) if len(t["a"]) > 2 else None
        guards = flow.bool_call_guards(f, bi, "llir::lower::stackless::expr_uses_var", d)
        ok = False
        detail = "no expr_uses_var test controls this reuse"
        for gb, gt in guards:
            other = param_of(gt["a"][0])
            gvar = param_of(gt["a"][1]) if len(gt["a"]) > 1 else None
            if other is not None and operand is not None and other != operand and gvar == dest_param and dest_param is not None:
                ok = True
            else:
                detail = "expr_uses_var is applied to parameter %s (var %s) while the sub-expression being computed comes from parameter %s (destination %s)" % (other, gvar, operand, dest_param)
        key = "lower_assign_direct_binop|reuse-%d" % (i + 1)
        rep.check(ok, "R-REUSE-GUARD", key, "%s:%d" % (f.file, t["ln"]),
                  "destination reused for operand #%s only if operand #%s does not read it" % (operand, [g for g in (param_of(gt["a"][0]) for _, gt in guards)][:1]),
                  "the destination register is reused for a sub-expression although the other operand may still read it: " + detail)
    u = db.fn(S + "lower_assign_direct_unop")
    rep.fn(u)
    us = flow.calls_to(u, "compute_temporary_expr")
    rep.check(len(us) == 1, "R-REUSE-GUARD", "lower_assign_direct_unop|single-operand", u.loc, "unary case: no other operand exists, reuse is unconditional on aliasing",
              "expected exactly one reuse site in the unary case, found %d" % len(us))
    ev = db.fn("llir::lower::stackless::expr_uses_var")
    rep.fn(ev)
    impls = [x for x in db.fns.values() if x.id.startswith("<llir::lower::stackless::expr_uses_var::Visitor<'_, '_> as ast::ref_::Visit>::")]
    onames = sorted(x.id.rsplit("::", 1)[-1] for x in impls)
    rep.check(onames == ["visit_var"], "R-REUSE-GUARD", "expr_uses_var|full-traversal", ev.loc, "the visitor overrides only visit_var: every sub-expression is walked by the canonical walker",
              "expr_uses_var's visitor overrides %s: sub-expressions may be skipped" % onames)
    n_alias = sum(1 for g in [ev] + impls for _, t in g.calls() if t.get("f", "").endswith("var_aliasable_id"))
    rep.check(n_alias >= 2, "R-REUSE-GUARD", "expr_uses_var|alias-aware", ev.loc, "both sides are compared by AliasableId (register aliases and sigils are seen through)",
              "expr_uses_var does not compare var_aliasable_id of both sides")
    starts = [t for _, t in ev.calls() if t.get("f", "").rsplit("::", 1)[-1] == "visit_expr"]
    rep.check(bool(starts), "R-REUSE-GUARD", "expr_uses_var|visits-the-expression", ev.loc, "the whole expression is visited", "expr_uses_var no longer visits the expression")

    # ---------------- R-TEMP-PAIR
    n_def = 0
    for g in sorted(db.fns.values(), key=lambda x: x.id):
        if g.gen or not g.id.startswith("llir::lower::stackless::"):
            continue
        defs = flow.calls_to(g, "SingleSubLowerer::<'_, '_>::define_temporary")
        if not defs or g.id.endswith("::define_temporary"):
            continue
        rep.fn(g)
        undefs = set(b for b, _ in flow.calls_to(g, "SingleSubLowerer::<'_, '_>::undefine_temporary"))
        errs = flow.error_exit_blocks(g)
        for k, (bi, t) in enumerate(defs):
            n_def += 1
            start = t.get("t")
            reach = g.reachable_from(start, avoid=undefs | errs) if start is not None else set()
            leak = [b for b in reach if g.blocks[b]["t"]["k"] == "ret"]
            key = "%s|define_temporary-%d" % (g.id, k + 1)
            # deferred release: ids collected in a vec and released in a later loop (lower_instruction-style)
            deferred = False
            if leak and g.closure:
                deferred = _released_by_parent(db, g, start)
            elif leak:
                dd = flow.Defs(g)
                pushes = flow.calls_to(g, "Vec::<T, A>::push")
                deferred = bool(undefs) and any(pb in g.reachable_from(start) for pb, _ in pushes) and all(
                    any(ub in g.dominators().get(r, ()) or True for ub in undefs) for r in leak) and _release_loop_dominates_returns(g, undefs, errs)
            rep.check(not leak or deferred, "R-TEMP-PAIR", key, "%s:%d" % (g.file, t["ln"]),
                      "released by undefine_temporary on every normal path" + (" (collected and released in a loop before returning)" if deferred else ""),
                      "a normal return is reachable after this define_temporary without undefine_temporary: the register is never freed")
    rep.floor("define_temporary call sites", n_def, 7)

    # ---------------- R-CMP-JMP
    cj = db.fn(S + "lower_cond_jump_intrinsic")
    rep.fn(cj)
    ok = False
    for n in hir_walk(cj.hir):
        if n.get("k") == "Match":
            for arm in n["arms"]:
                sg = arms.pat_sig(arm["p"])
                if any(s and "CondJmp::TwoPart" in s for s in sg):
                    calls = [x for x in hir_walk(arm["b"]) if x.get("k") in ("Call", "MCall") and (x.get("f") or "").endswith("lower_intrinsic_by_opcode")]
                    if len(calls) == 2:
                        a0 = [y["p"] for y in hir_walk(calls[0]["a"][2]) if y.get("k") == "Path" and y.get("rk") == "Local"] if len(calls[0]["a"]) > 2 else []
                        a1 = [y["p"] for y in hir_walk(calls[1]["a"][2]) if y.get("k") == "Path" and y.get("rk") == "Local"] if len(calls[1]["a"]) > 2 else []
                        bound = {}
                        from rules.visit import _strip
                        p = _strip(arm["p"])
                        if p["k"] == "TS" and p["ps"]:
                            p = _strip(p["ps"][0])
                        if p["k"] == "Struct":
                            for fname, q in p["fs"]:
                                q = _strip(q)
                                if q["k"] == "Bind":
                                    bound[q["n"]] = fname
                        first = [bound.get(x) for x in a0 if x in bound]
                        second = [bound.get(x) for x in a1 if x in bound]
                        ok = first[:1] == ["cmp_opcode"] and second[:1] == ["jmp_opcode"]
    rep.check(ok, "R-CMP-JMP", "TwoPart|cmp-then-jmp", cj.loc, "the comparison instruction is emitted before the jump instruction",
              "the TwoPart arm does not emit cmp_opcode first and jmp_opcode second")
    return rep


def _release_loop_dominates_returns(g, undefs, errs):
    """every normal return is dominated by the header of a loop that contains an undefine_temporary call"""
    dom = g.dominators()
    headers = set()
    for ub in undefs:
        h = flow.innermost_header(g, ub)
        if h is not None:
            headers.add(h)
    if not headers:
        return False
    bypass = g.reachable_from(0, avoid=set(errs) | headers)
    return not any(b["t"]["k"] == "ret" and bi in bypass for bi, b in enumerate(g.blocks))


def _released_by_parent(db, cl, start):
    """the closure records the temporary's id in a captured Vec that the parent drains through undefine_temporary
    in a loop whose header dominates the parent's normal returns"""
    d = flow.Defs(cl)
    vec_origin = None
    for pb, t in flow.calls_to(cl, "Vec::<T, A>::push"):
        if pb in cl.reachable_from(start):
            p = op_place(t["a"][0])
            if p is not None:
                of, oc = flow.trace_to_origin(db, cl, p)
                if oc[0] in ("local", "call"):
                    vec_origin = (of, oc)
    if vec_origin is None:
        return False
    parent, oc = vec_origin
    undefs = set(b for b, _ in flow.calls_to(parent, "SingleSubLowerer::<'_, '_>::undefine_temporary"))
    if not undefs:
        return False
    dp = flow.Defs(parent)
    dom = parent.dominators()
    errs = flow.error_exit_blocks(parent)
    for ub in undefs:
        h = flow.innermost_header(parent, ub)
        if h is None:
            continue
        # the loop iterates the same Vec
        it_ok = False
        for bi, t in parent.calls():
            if t.get("f", "").endswith("IntoIterator::into_iter") or t.get("f", "").endswith("::into_iter") or t.get("f", "").endswith("Iterator::rev"):
                p = op_place(t["a"][0]) if t["a"] else None
                if p is not None:
                    cp = flow.canon_place(parent, p, dp)
                    if cp[0] == oc[0] and cp[1] == oc[1]:
                        it_ok = True
        rets = [bi for bi, b in enumerate(parent.blocks) if b["t"]["k"] == "ret"]
        bypass = parent.reachable_from(0, avoid=errs | {h})
        if it_ok and not any(r in bypass for r in rets):
            return True
    return False
