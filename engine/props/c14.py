"""C14 Difficulty labels and switches select exactly the stated difficulties (structural clauses, symbolic)."""
import re
import itertools
from common import Report, Broken
from rules import symeval as S

EXPLANATION = (
    "Symbolic evaluation of the HIR (rules/symeval.py; nothing is executed) of the code that carries difficulty masks: "
    "context::diff_flags (define_flag, define_flag_from_mapfile, parse_diff_string, mask_to_diff_label, difficulty_bits, "
    "aux_bits), bitset::BitSet32 (set_bit / insert / remove / with_bit / without_bit / complement / with_upper_bound), "
    "diff_switch_utils (DiffSwitchMeta::update, explicit_case_bitmasks, select_diff_switch_case), "
    "llir::lower::elaborate_diff_switches and llir::raise::recognize::bitmask_bits_are_contiguous.  "
    "R-FLAG-DEF: defining a flag sets OR CLEARS its default-enable bit unconditionally and records the name in both "
    "directions; the mapfile sign `+`/`-` maps to true/false; BitSet32::set_bit inserts or removes.  "
    "R-BITS: aux_bits is the default-enable set, difficulty_bits its complement within NUM_BITS, complement(x, n) = "
    "(!x) truncated to n bits.  R-LABEL-CODEC: mask_to_diff_label prints must_enable = mask & difficulty_bits (as `*` "
    "iff it equals difficulty_bits, else flag by flag) and, after `-`, must_disable = !mask & aux_bits iff non-empty "
    "(bit-set expressions compared by truth table over their atoms); parse_diff_string starts from the default-enable "
    "set, `+`/`-` switch the polarity, `*` sets all NUM_BITS bits or none, a flag character sets its bit to the current "
    "polarity, anything else is an error.  R-SWITCH-MASK: each copy emitted for a switch case carries the mask "
    "(stmt & difficulty_bits & case) | (stmt & aux_bits) (truth table), is emitted iff stmt & difficulty_bits & case is "
    "non-empty, takes its arguments from the first difficulty of the case, statements without a switch pass through; "
    "the case masks are the half-open ranges between consecutive explicit difficulties up to the number of cases; a "
    "case value is the nearest explicit case at or below the difficulty.  R-CONTIG: a mask is contiguous iff "
    "last - first + 1 == popcount (linear normal form).  Decides these code-shape conditions; the bijection over all "
    "256 masks x flag sets and exactly-one coverage for concrete statements are not decided.")
RULE = "instance = one row (condition assignment -> effects) of a symbolically evaluated function, one bit-set expression (truth table), or one linear relation"

DF = "context::diff_flags::DiffFlagDefs::"
BS = "bitset::BitSet32::"


def rows_of(paths):
    """distinct (conds, events) of the non-error paths, events rendered"""
    out = []
    for conds, events, fl, st in paths:
        if fl in ("error", "diverge"):
            continue
        mp = {}
        evs = tuple(S.render_event(S._renumber(e, mp)) for e in events)
        out.append((dict((S.alias(k), v) for k, v, _ in conds), evs))
    return out


def distinct_effects(paths):
    return sorted(set(evs for _, evs in rows_of(paths)))


def run(db, tier):
    rep = Report("C14", tier, EXPLANATION, RULE)
    rep.rule("R-FLAG-DEF", "a flag definition always overwrites the default-enable bit and both name tables")
    rep.rule("R-BITS", "difficulty bits and aux bits partition the NUM_BITS flags")
    rep.rule("R-LABEL-CODEC", "a label prints exactly the bits that differ from the defaults, and parses back by the inverse rules")
    rep.rule("R-SWITCH-MASK", "a switch case's copy runs on (statement AND case) difficulties and keeps the statement's aux flags")
    rep.rule("R-CONTIG", "difficulty switches are only recognised over contiguous masks")
    S.set_aliases([])

    # ---------------- R-FLAG-DEF
    eff = ("BitSet32::set_bit", "BitSet32::insert", "BitSet32::remove", "BTreeMap::<K, V, A>::insert")
    f = db.fn(DF + "define_flag")
    rep.fn(f)
    got = distinct_effects(S.fn_paths(db, f.id, effect_calls=eff))
    want = [("effect set_bit(self.flag_default_enable, index, enable)", "effect insert(self.by_name, name, index)",
             "effect insert(self.by_flag, index, name)", "<ret> := ()")]
    rep.check(got == want, "R-FLAG-DEF", "define_flag|effects", f.loc, "set_bit(default_enable, index, enable); by_name[name] = index; by_flag[index] = name on every path",
              "define_flag does %s; a redefinition must clear as well as set the default-enable bit and update both tables" % got)
    f = db.fn(DF + "define_flag_from_mapfile")
    rep.fn(f)
    rows = rows_of(S.fn_paths(db, f.id, effect_calls=("DiffFlagDefs::define_flag",)))
    sign = {}
    for cd, evs in rows:
        for k, v in cd.items():
            if k.startswith("match ") and "'-', '+'" in k:
                m = [e for e in evs if e.startswith("effect define_flag(")]
                sign[v] = m[0].rsplit(", ", 1)[-1].rstrip(")") if len(m) == 1 else None
    rep.check(sign == {"'-'": "false", "'+'": "true"}, "R-FLAG-DEF", "mapfile|sign", f.loc, "`+` defines the flag default-on, `-` default-off", "the mapfile sign maps to %s" % sign)
    # a name refers to one flag only (finding F25): define_flag is reached only if the name is new or already names this index
    allp = S.fn_paths(db, f.id, effect_calls=("DiffFlagDefs::define_flag",), error_paths=True)
    guarded = True
    n_def = 0
    for conds, events, fl, st in allp:
        if fl is None and any(e[0] == "effect" and e[1] == "define_flag" for e in events):
            n_def += 1
            cd = dict((k, v) for k, v, _ in conds)
            fresh = any(k.startswith("is_none(get(self.by_name") and v is True for k, v in cd.items())
            same = any(re.match(r"^\(get\(self\.by_name, .*\)\.Some\.0 == index\)$", k) and v is True for k, v in cd.items())
            if not (fresh or same):
                guarded = False
    rejects = any(fl == "error" and any(re.match(r"^\(get\(self\.by_name, .*\)\.Some\.0 == index\)$", k) and v is False for k, v, _ in conds) for conds, events, fl, st in allp)
    rep.check(guarded and rejects and n_def >= 2, "R-FLAG-DEF", "mapfile|a name names one flag", f.loc,
              "a name already used for another flag is rejected; define_flag runs only for new names or the same index",
              "define_flag_from_mapfile can re-point a flag name to another bit (guarded=%s, rejects=%s): the old bit keeps printing under a name that parses to the new bit" % (guarded, rejects))
    f = db.fn(BS + "set_bit")
    rep.fn(f)
    rows = rows_of(S.fn_paths(db, f.id, effect_calls=("BitSet32::insert", "BitSet32::remove")))
    tbl = sorted((tuple(sorted(cd.items())), evs[0] if evs else None) for cd, evs in rows)
    rep.check(tbl == [((("enabled", False),), "effect remove(self, index)"), ((("enabled", True),), "effect insert(self, index)")], "R-FLAG-DEF", "BitSet32::set_bit", f.loc,
              "set_bit inserts when enabled and removes otherwise", "BitSet32::set_bit does %s" % tbl)
    for name, inner, expr in (("insert", "with_bit", "(self.0 | (1 << index))"), ("remove", "without_bit", "(self.0 & !(1 << index))")):
        g, h = db.fn(BS + name), db.fn(BS + inner)
        rep.fn(g)
        rep.fn(h)
        st = [e for e in distinct_effects(S.fn_paths(db, g.id)) for e in e if e.startswith("store *self")]
        ret = [e for e in distinct_effects(S.fn_paths(db, h.id)) for e in e if e.startswith("<ret>")]
        rep.check(st == ["store *self = %s(self, index)" % inner] and ret == ["<ret> := bitset::BitSet32{0: %s}" % expr], "R-FLAG-DEF", "BitSet32::%s" % name, g.loc,
                  "%s stores %s = %s" % (name, inner, expr), "BitSet32::%s stores %s with %s = %s" % (name, st, inner, ret))

    # ---------------- R-BITS
    f = db.fn(DF + "difficulty_bits")
    g = db.fn(DF + "aux_bits")
    rep.fn(f)
    rep.fn(g)
    a = distinct_effects(S.fn_paths(db, f.id))
    b = distinct_effects(S.fn_paths(db, g.id))
    rep.check(a == [("<ret> := complement(self.flag_default_enable, NUM_BITS)",)], "R-BITS", "difficulty_bits", f.loc, "complement of the default-enable set within NUM_BITS", "difficulty_bits returns %s" % a)
    rep.check(b == [("<ret> := self.flag_default_enable",)], "R-BITS", "aux_bits", g.loc, "the default-enable set", "aux_bits returns %s" % b)
    f = db.fn(BS + "complement")
    g = db.fn(BS + "with_upper_bound")
    rep.fn(f)
    rep.fn(g)
    a = distinct_effects(S.fn_paths(db, f.id))
    b = distinct_effects(S.fn_paths(db, g.id))
    rep.check(a == [("<ret> := with_upper_bound(!self, len)",)], "R-BITS", "BitSet32::complement", f.loc, "(!self) truncated to len bits", "complement returns %s" % a)
    rep.check(b == [("<ret> := bitset::BitSet32{0: (self.0 & wrapping_sub(unwrap_or(checked_shl(1, len), 0), 1))}",)], "R-BITS", "BitSet32::with_upper_bound", g.loc,
              "self & ((1 << len) - 1), 0 when len >= 32 wraps to all ones", "with_upper_bound returns %s" % b)
    nb = None
    for c in db.consts.values() if hasattr(db, "consts") else []:
        pass
    # NUM_BITS: every use site compares an index with it / shifts by it; its value is read from the `*` arm below

    # ---------------- R-LABEL-CODEC: printing
    f = db.fn(DF + "mask_to_diff_label")
    rep.fn(f)
    paths = S.fn_paths(db, f.id, sinks=("out",))
    ME = "(mask & difficulty_bits(self))"
    MD = "(complement(mask, NUM_BITS) & aux_bits(self))"
    # the two sets, by truth table over {mask, D, A}
    terms = {}
    for conds, events, fl, st in paths:
        for nm in ("must_enable", "must_disable"):
            if nm in st.env:
                terms[nm] = st.env[nm]
    atoms = ("mask", "difficulty_bits(self)", "aux_bits(self)")
    te = S.bool_table(terms.get("must_enable", ("lit", "?")), atoms)
    td = S.bool_table(terms.get("must_disable", ("lit", "?")), atoms)
    want_e = tuple(m & d for m, d, a in itertools.product((0, 1), repeat=3))
    want_d = tuple((1 - m) & a for m, d, a in itertools.product((0, 1), repeat=3))
    rep.check(te == want_e, "R-LABEL-CODEC", "print|must_enable = mask & difficulty_bits", f.loc, "truth table over (mask, D, A) matches",
              "must_enable is %s, not mask & difficulty_bits" % S.render(terms.get("must_enable", ("lit", "?"))))
    rep.check(td == want_d, "R-LABEL-CODEC", "print|must_disable = !mask & aux_bits", f.loc, "truth table over (mask, D, A) matches",
              "must_disable is %s, not complement(mask) & aux_bits" % S.render(terms.get("must_disable", ("lit", "?"))))
    if "must_enable" in terms and "must_disable" in terms:
        e_txt, d_txt = S.render(terms["must_enable"]), S.render(terms["must_disable"])
        S.set_aliases([(e_txt, "ME"), (d_txt, "MD")])
        try:
            rows = rows_of(paths)
            star = "(ME == difficulty_bits(self))"
            got = {}
            for cd, evs in rows:
                key = (cd.get(star), cd.get("is_empty(MD)"))
                got.setdefault(key, set()).add(tuple(e for e in evs if not e.startswith("<ret>")))
            en_star = ("emit '*'",)
            en_each = ("loop over ME [always => emit index(self.by_flag, each(ME))]",)
            dis = ("emit '-'", "loop over MD [always => emit index(self.by_flag, each(MD))]")
            want = {(True, True): {en_star}, (True, False): {en_star + dis}, (False, True): {en_each}, (False, False): {en_each + dis}}
            rep.check(got == want, "R-LABEL-CODEC", "print|scheme", f.loc,
                      "`*` iff every difficulty bit is on, else flag by flag; `-` and the switched-off aux flags iff there are any",
                      "mask_to_diff_label prints %s" % dict((k, sorted(v)) for k, v in got.items()))
        finally:
            S.set_aliases([])
    # ---------------- R-LABEL-CODEC: parsing
    f = db.fn(DF + "parse_diff_string")
    rep.fn(f)
    paths = S.fn_paths(db, f.id, effect_calls=("BitSet32::set_bit",), error_paths=True)
    ok_paths = [p for p in paths if p[2] is None]
    rep.check(len(ok_paths) == 1, "R-LABEL-CODEC", "parse|one success path", f.loc, "one loop over the characters, then Ok(out)", "parse_diff_string has %d success paths" % len(ok_paths))
    if len(ok_paths) == 1:
        conds, events, fl, st = ok_paths[0]
        loops = [e for e in events if e[0] == "loop"]
        ret = [S.render(e[2]) for e in events if e[0] == "set" and e[1] == "<ret>"]
        init = None
        fn_node = f.hir
        # initial value of `out`: evaluate up to the loop -> env of a state before; approximate via first let
        from rules import hirq
        L = hirq.lets(f)
        init_txt = None
        if "out" in L:
            ev0 = S.Evaluator(S.Config(db, f.id))
            r0 = ev0.ev(L["out"][0], S.State({"self": ("sym", "self")}, (), (), 0, None, None), 0)
            init_txt = S.render(r0[0][1]) if r0 else None
        rep.check(init_txt == "self.flag_default_enable", "R-LABEL-CODEC", "parse|starts from the defaults", f.loc, "out starts as flag_default_enable", "the mask starts as %s" % init_txt)
        rep.check(ret == ["Result::Ok{0: out}"] and len(loops) == 1 and loops[0][1] == "chars(str)", "R-LABEL-CODEC", "parse|loop over chars, returns the mask", f.loc,
                  "every character is processed in order and the accumulated mask is returned", "parse_diff_string returns %s after looping over %s" % (ret, [l[1] for l in loops]))
        if len(loops) == 1:
            sub = loops[0][2]
            CH = "each(chars(str))"
            got = {}
            for c, evs, fl2 in sub:
                cd = dict((k, v) for k, v, _ in c)
                arm = None
                for k, v in cd.items():
                    if k.startswith("match %s " % CH):
                        arm = v
                mp = {}
                r_evs = tuple(S.render_event(S._renumber(e, mp)) for e in evs)
                en = None
                for k, v in cd.items():
                    if k.startswith("match enable "):
                        en = v
                known = None
                for k, v in cd.items():
                    if k.startswith("is_none(get(self.by_name"):
                        known = not v
                got.setdefault(arm, set()).add((en, known, r_evs, fl2))
            def outcomes(arm, en=None, known=None):
                return set((e, f2) for (x, kn, e, f2) in got.get(arm, ()) if (en is None or x is None or x == en) and (known is None or kn is None or kn == known))
            idx = "get(self.by_name, %s).Some.0" % CH
            checks = [
                ("'-' -> disable", outcomes("'-'") == {(("enable := false",), None)}),
                ("'+' -> enable", outcomes("'+'") == {(("enable := true",), None)}),
                ("'*' enabled -> all NUM_BITS bits", outcomes("'*'", en="true") == {(("out := from_mask(((1 << NUM_BITS) - 1))",), None)}),
                ("'*' disabled -> no bits", outcomes("'*'", en="false") == {(("out := from_mask(0)",), None)}),
                ("known flag -> set_bit(out, index, enable)", outcomes("range|range|range", known=True) == {(("effect set_bit(out, %s, enable)" % idx,), None)}),
                ("unknown flag -> error", all(f2 == "error" for _, f2 in outcomes("range|range|range", known=False)) and bool(outcomes("range|range|range", known=False))),
                ("other character -> error", all(f2 == "error" for _, f2 in outcomes("_")) and bool(outcomes("_"))),
            ]
            for name, ok in checks:
                rep.check(ok, "R-LABEL-CODEC", "parse|%s" % name, f.loc, name, "parse_diff_string: NOT (%s); arms seen: %s" % (name, dict((k, sorted(map(str, v))) for k, v in got.items())))

    # ---------------- R-SWITCH-MASK
    f = db.fn("llir::lower::elaborate_diff_switches")
    rep.fn(f)
    paths = [p for p in S.fn_paths(db, f.id, sinks=("out",), effect_calls=("DiffSwitchMeta::update",)) if p[2] is None]
    rep.check(len(paths) == 1, "R-SWITCH-MASK", "elaborate|one statement loop", f.loc, "one loop over the statements", "elaborate_diff_switches has %d paths" % len(paths))
    if len(paths) == 1:
        loops = [e for e in paths[0][1] if e[0] == "loop"]
        rep.check(len(loops) == 1 and loops[0][1] == "stmts", "R-SWITCH-MASK", "elaborate|all statements in order", f.loc, "iterates stmts", "iterates %s" % [l[1] for l in loops])
        STM = "each(stmts)"
        passthrough = 0
        case_loops = []
        for c, evs, fl2 in (loops[0][2] if loops else []):
            cd = dict((k, v) for k, v, _ in c)
            emits = [e for e in evs if e[0] == "emit"]
            inner = [e for e in evs if e[0] == "loop" and "explicit_case_bitmasks" in e[1]]
            if inner:
                case_loops.append((cd, evs, inner[0]))
                rep.check(not emits, "R-SWITCH-MASK", "elaborate|switch statement is replaced", f.loc, "the original statement is not also emitted",
                          "a statement with a difficulty switch is emitted in addition to its per-case copies")
            else:
                ok = len(emits) == 1 and S.render(emits[0][1]) == STM
                passthrough += 1
                rep.check(ok, "R-SWITCH-MASK", "elaborate|pass-through %s" % sorted((k, str(v)) for k, v in cd.items()), f.loc, "statement kept as is",
                          "a statement without a difficulty switch is not passed through unchanged: %s" % [S.render_event(e) for e in evs])
        rep.check(len(case_loops) >= 1 and passthrough >= 3, "R-SWITCH-MASK", "elaborate|cases", f.loc, "switch / no-switch / blob / non-instruction cases found",
                  "expected pass-through cases and one expansion case, found %d / %d" % (passthrough, len(case_loops)))
        for cd, evs, inner in case_loops[:1]:
            nd = [k for k, v in cd.items() if "num_difficulties < 2" in k]
            rep.check(bool(nd) and cd[nd[0]] is False, "R-SWITCH-MASK", "elaborate|expansion iff >= 2 difficulties", f.loc, "expansion happens when some switch has at least two cases",
                      "the expansion condition is %s" % cd)
            CASE = "each(%s)" % inner[1]
            M = "%s.Instr.0.stmt_data.difficulty_mask" % STM
            D, A = "difficulty_bits(diff_flag_names)", "aux_bits(diff_flag_names)"
            for c2, evs2, fl3 in inner[2]:
                cd2 = dict((k, v) for k, v, _ in c2)
                emits = [e for e in evs2 if e[0] == "emit"]
                guard = [k for k in cd2 if k.startswith("is_empty(")]
                if not emits:
                    continue
                e = emits[0][1]
                # LowerStmt::Instr{0: LowerInstr{.., stmt_data: TimeAndDifficulty{.., difficulty_mask: X}, args: Known{select(.., first)}}}
                def field(t, name):
                    if t[0] == "ctor":
                        for fn_, v in t[2]:
                            if fn_ == name:
                                return v
                    return None
                li = field(e, "0")
                sd = field(li, "stmt_data") if li else None
                mask_t = field(sd, "difficulty_mask") if sd else None
                args_t = field(li, "args") if li else None
                tt = S.bool_table(mask_t, (M, D, A, CASE)) if mask_t else None
                want = tuple((m & d & c) | (m & a) for m, d, a, c in itertools.product((0, 1), repeat=4))
                rep.check(tt == want, "R-SWITCH-MASK", "elaborate|mask = (stmt & D & case) | (stmt & A)", f.loc, "truth table over (stmt, D, A, case) matches",
                          "the mask of a per-case copy is %s" % (S.render(mask_t) if mask_t else None))
                base_ok = sd is not None and field(sd, "..") is not None and S.render(field(sd, "..")) == "%s.Instr.0.stmt_data" % STM and S.render(field(li, "..")) == "%s.Instr.0" % STM
                rep.check(base_ok, "R-SWITCH-MASK", "elaborate|copy keeps time and opcode", f.loc, "every other field is copied from the statement", "the per-case copy is not built from the statement's own fields")
                gt = None
                if guard:
                    # guard term: is_empty(X) False; X must be stmt & D & case
                    for k in guard:
                        if cd2[k] is False:
                            gt = k
                want_g = "is_empty(((%s & %s) & %s))" % (M, D, CASE)
                gtt = None
                if gt:
                    inner_txt = gt[len("is_empty("):-1]
                    gtt = inner_txt
                ok_g = False
                if gt:
                    # compare by truth table: parse not available for strings; accept the canonical spellings of a 3-way AND
                    perms = set("((%s & %s) & %s)" % p for p in itertools.permutations((M, D, CASE))) | set("(%s & (%s & %s))" % p for p in itertools.permutations((M, D, CASE)))
                    ok_g = gtt in perms
                rep.check(ok_g, "R-SWITCH-MASK", "elaborate|emitted iff stmt & D & case non-empty", f.loc, "a copy is emitted exactly when the case overlaps the statement's difficulties",
                          "the emission guard is %s" % (gt or sorted(cd2.items())))
                a_txt = S.render(args_t) if args_t else ""
                ok_a = a_txt == "LowerArgs::Known{0: select_diff_for_lower_args(%s.Instr.0.args.Known.0, unwrap(next(into_iter(%s))))}" % (STM, CASE)
                rep.check(ok_a, "R-SWITCH-MASK", "elaborate|arguments of the case's first difficulty", f.loc, "arguments are selected at the first difficulty of the case mask",
                          "the arguments of a per-case copy are %s" % a_txt)
    # nested switches (finding F27): the explicit difficulties of the statement include those of switches nested in cases
    from facts import hir_walk as _hw
    ed = db.fn("llir::lower::elaborate_diff_switches")
    callees = set(t.get("f") for g in [ed] + list(db.children.get(ed.id, [])) for _, t in g.calls())
    helpers = [c for c in callees if c and c.startswith("llir::lower::") and c in db.fns and c != ed.id]
    nested_ok = False
    for h in helpers:
        hf = db.fns[h]
        hc = [t.get("f") for g in [hf] + list(db.children.get(hf.id, [])) for _, t in g.calls()]
        if any((c or "").endswith("DiffSwitchMeta::update") for c in hc) and h in hc:
            rep.fn(hf)
            nested_ok = True
    rep.check(nested_ok, "R-SWITCH-MASK", "elaborate|nested switches are accounted for", ed.loc,
              "the explicit-difficulty collector updates the meta for a switch and recurses into its cases",
              "elaborate_diff_switches collects explicit difficulties from top-level switch arguments only: `((1:2:3:4)::5:)` gives difficulty 1 the value of difficulty 0")
    f = db.fn("diff_switch_utils::DiffSwitchMeta::update")
    rep.fn(f)
    got = distinct_effects(S.fn_paths(db, f.id, effect_calls=("BitSet32::insert",)))
    E = "each(enumerate(iter(switch_cases)))"
    want_u = [("store *self.num_difficulties = max(self.num_difficulties, len(switch_cases))",
               "loop over enumerate(iter(switch_cases)) [!is_none(%s.1) => effect insert(self.explicit_difficulties, %s.0) || is_none(%s.1) => (nothing)]" % (E, E, E), "<ret> := ()")]
    alt_u = [tuple(x for x in want_u[0] if not x.startswith("store"))]
    rep.check(got in (want_u, alt_u), "R-SWITCH-MASK", "update|explicit difficulties = positions holding a case", f.loc, "num = max(num, len); every Some position is explicit",
              "DiffSwitchMeta::update does %s" % got)
    f = db.fn("diff_switch_utils::DiffSwitchMeta::explicit_case_bitmasks")
    rep.fn(f)
    got = distinct_effects(S.fn_paths(db, f.id))
    stops = "chain(into_iter(self.explicit_difficulties), once(self.num_difficulties))"
    want_m = [("<ret> := map(%s, |stop|(collect(range::Range{end: stop, start: expect(next(%s), \"always at least one case\")}), set prev(stop)))" % (stops, stops),)]
    rep.check(got == want_m, "R-SWITCH-MASK", "explicit_case_bitmasks|half-open ranges between explicit difficulties", f.loc,
              "masks are [prev, stop) for consecutive stops = explicit difficulties followed by the number of cases", "explicit_case_bitmasks computes %s" % got)
    f = db.fn("diff_switch_utils::select_diff_switch_case")
    rep.fn(f)
    got = distinct_effects(S.fn_paths(db, f.id))
    ok_forms = (
        [('<ret> := expect(next(filter_map(rev(new(0, difficulty)), |i|(index(cases, i)))), "there\'s always an easy value")',)],
        [('<ret> := expect(find_map(rev(new(0, difficulty)), |i|(index(cases, i))), "there\'s always an easy value")',)],
    )
    rep.check(got in ok_forms, "R-SWITCH-MASK", "select|nearest explicit case at or below", f.loc, "searches difficulty, difficulty-1, .., 0 for the first explicit case",
              "select_diff_switch_case returns %s" % got)

    # ---------------- R-CONTIG
    f = db.fn("llir::raise::recognize::bitmask_bits_are_contiguous")
    rep.fn(f)
    ps = [p for p in S.fn_paths(db, f.id) if p[2] is None]
    rets = [e[2] for p in ps for e in p[1] if e[0] == "set" and e[1] == "<ret>"]
    ok = False
    why = "returns %s" % [S.render(r) for r in rets]
    if len(rets) == 1 and rets[0][0] == "bin" and rets[0][1] == "==":
        l, r = S.linear_form(rets[0][2]), S.linear_form(rets[0][3])
        diff = dict(l)
        for k, v in r.items():
            diff[k] = diff.get(k, 0) - v
        diff = dict((k, v) for k, v in diff.items() if v != 0)
        want = {"last(mask)": 1, "first(mask)": -1, "len(mask)": -1, 1: 1}
        neg = dict((k, -v) for k, v in want.items())
        ok = diff in (want, neg)
        why = "the relation is %s == 0" % diff
    rep.check(ok, "R-CONTIG", "bitmask_bits_are_contiguous|last - first + 1 == popcount", f.loc, "equality of span and population count", why)
    callers = [g for g in db.fns.values() if any(t.get("f") == f.id for _, t in g.calls())]
    rep.check(len(callers) >= 1, "R-CONTIG", "recognize|precondition used", f.loc, "used by %s" % [g.id.rsplit("::", 1)[-1] for g in callers][:3],
              "bitmask_bits_are_contiguous is no longer called by the diff-switch recogniser")
    S.set_aliases([])
    # every statement produced by block desugaring carries the difficulty label in force (rule shared with C06)
    from props import c06
    rep.absorb(c06.run(db, tier), rules=("R-DESUGAR-SHAPE",), why="the label of a statement is its own label, else the enclosing block's; a full mask is dropped only after that choice")
    S.set_aliases([])
    return rep
