"""C03 A successful compile never writes a file that differs from what was asked (R-LOSSY)."""
import json
import os
import re
from common import Report, VERIF
from facts import place_local, op_local
from rules import lossy, codec

EXPLANATION = (
    "Static rule R-LOSSY over the MIR of every function reachable (call graph incl. dyn dispatch to all local impls) "
    "from the compile/write entry points of all formats, from CompilerContext::extend_from_mapfile and from the "
    "FromMeta/from_fields constructors of file-model structs: every narrowing integer cast (`as` to fewer bits) whose "
    "result flows to a file sink (io::BinWrite primitive, blob byte, field of a file-model struct, value returned by a "
    "producer of such data, argument of a local function) must be discharged by a constant operand, a mask/modulo/shift "
    "that makes it fit, a dominating range comparison whose other edge leaves, a bool/enum-discriminant source, or — for "
    ">= 32-bit targets only — by deriving exclusively from stream positions / in-memory lengths (assumption: outputs "
    "< 4 GiB).  Remaining casts must be in the audited table with a mechanical witness where one exists.  The rule "
    "decides the necessary condition 'no unchecked truncation on the way to the file'; it does not execute truth and "
    "does not decide read-back equality of concrete files.")
RULE = ("instance = one narrowing IntToInt cast (function, source type -> target type, ordinal) in writer-reachable code "
        "that reaches a file sink; non-trivial = all of them; distinct by key")


def witness_diff_mask_8_bits(db):
    """difficulty masks have only bits 0..7: DiffFlagDefs::define_flag refuses index >= NUM_BITS (8)"""
    f = db.fn("context::diff_flags::DiffFlagDefs::define_flag")
    for b in f.blocks:
        for s in b["s"]:
            if s["r"] == "binop" and s["op"] == "Lt":
                for k in ("a", "b"):
                    if isinstance(s[k], dict) and s[k].get("iv") == 8:
                        return True
    return False


def witness_mission_cipher_reader_same(db):
    """the reader derives the cipher key with the identical u16->u8 truncation"""
    n = 0
    for name in ("<formats::mission::Entry095 as formats::mission::Entry>::read",
                 "<formats::mission::Entry125 as formats::mission::Entry>::read"):
        f = db.fn(name)
        n += sum(1 for _ in lossy.narrowing_casts(db, f))
    return n >= 5


def witness_hex_digits(db):
    """parse_args_blob: each nibble comes from a `'a'..='f' | 'A'..='F' | '0'..='9'` range match on the char"""
    f = db.fn("ast::pseudo::parse_args_blob")
    # the three casts are in blocks reached only through range tests on the char (SwitchInt on Le/Ge comparisons)
    cmps = 0
    for b in f.blocks:
        for s in b["s"]:
            if s["r"] == "binop" and s["op"] in ("Le", "Ge", "Lt", "Gt"):
                cmps += 1
    return cmps >= 6


WITNESS = {
    "diff_mask_8_bits": witness_diff_mask_8_bits,
    "mission_cipher_reader_same": witness_mission_cipher_reader_same,
    "hex_digits": witness_hex_digits,
}


def _lossy_op_before(db, f, operand, ops, depth=0):
    """backward walk from an operand through copies / casts / refs / aggregates (and closure captures into the parent
    function); returns (op, line) of the first bit-dropping binary operation found, else None"""
    from facts import op_place
    from rules import flow
    if operand is None or depth > 4:
        return None
    defs = lossy.defs_of(f)
    work = [operand]
    seen = set()
    while work:
        o = work.pop()
        if isinstance(o, dict):
            pl0 = op_place(o)
            l = place_local(pl0) if pl0 is not None else None
        else:
            l = o
        if l is None:
            continue
        if f.closure and l == 1 and isinstance(o, dict):
            pl = op_place(o)
            proj = [e for e in (pl.get("p") if isinstance(pl, dict) else []) if e != "*"]
            if proj and isinstance(proj[0], list) and proj[0][0] == "f":
                try:
                    parent, po = flow.upvar_origin(db, f, int(proj[0][1]))
                except ValueError:
                    parent, po = None, None
                if parent is not None and po is not None:
                    r = _lossy_op_before(db, parent, po, ops, depth + 1)
                    if r is not None:
                        return r
            continue
        if l in seen:
            continue
        seen.add(l)
        for (_, si, st) in defs.get(l, []):
            if si == -1:
                continue
            r = st.get("r")
            if r == "binop":
                if st.get("op") in ops:
                    return (st.get("op"), st.get("ln"))
                work.append(st["a"])
                work.append(st["b"])
            elif r in ("use", "cast", "unop"):
                work.append(st["o"])
            elif r == "ref":
                work.append({"cp": st["p"]} if isinstance(st["p"], dict) else st["p"])
            elif r == "agg":
                work.extend(st.get("ops", []))
    return None


def lossy_in_fn(db, rep, f, table, used_table):
    """R-LOSSY over one function: every narrowing integer cast whose value reaches a file sink must be discharged or audited.
    -> (casts inspected, write-primitive call sites)"""
    n_casts = n_writes = 0
    rep.fn(f)
    for _, t in f.calls():
        if lossy.WRITE_PRIM.match(t.get("f", "")):
            n_writes += 1
    defs = None
    ordinal = {}
    for bi, si, s, a, c in lossy.narrowing_casts(db, f):
        n_casts += 1
        rep.site()
        if defs is None:
            defs = lossy.defs_of(f)
        k = "%s|%s->%s" % (f.id, a, c)
        ordinal[k] = ordinal.get(k, 0) + 1
        key = "%s|%d" % (k, ordinal[k])
        loc = "%s:%d" % (f.file, s["ln"])
        sinks = lossy.forward_sinks(db, f, place_local(s["d"]), bi)
        if not sinks:
            continue      # value never reaches a file sink (spans, indices, comparisons)
        sink_txt = "; ".join(sorted(set(x[1] for x in sinks)))[:200]
        dis = lossy.discharge(db, f, bi, si, s, defs)
        if dis is None:
            src = op_local(s["o"])
            prov = lossy.provenance(db, f, src, defs) if src is not None else {"other"}
            if prov and prov <= {"bool", "const"}:
                dis = ("bool", "source is a bool / constant")
            elif prov and prov <= {"enum", "const"}:
                dis = ("enum", "source is an enum discriminant")
            elif lossy.BITS[c] >= 32 and lossy.BITS[a] == 64:
                dis = ("size32", "64-bit quantity (this crate uses 64-bit integers only for stream positions and in-memory sizes; script values are i32/f32) narrowed to a 32-bit field: needs >= 4 GiB of data; provenance %s" % sorted(prov))
        if dis is not None:
            rep.ok("R-LOSSY", key, loc, "%s -> %s, %s: discharged (%s: %s)" % (a, c, sink_txt, dis[0], dis[1]))
            continue
        ent = table.get(key)
        if ent is not None:
            used_table.add(key)
            w = ent.get("witness")
            if w is None or WITNESS[w](db):
                rep.ok("R-LOSSY", key, loc, "%s -> %s, %s: audited: %s" % (a, c, sink_txt, ent["reason"]))
            else:
                rep.bad("R-LOSSY", key, loc, "%s -> %s, %s: audited entry's witness '%s' no longer holds (%s)" % (a, c, sink_txt, w, ent["reason"]))
            continue
        rep.bad("R-LOSSY", key, loc, "unchecked narrowing %s -> %s of a value that is %s" % (a, c, sink_txt))
    return n_casts, n_writes


def load_table():
    return json.load(open(os.path.join(VERIF, "engine", "tables", "c03_lossy_audit.json")))["entries"]


def run(db, tier):
    rep = Report("C03", tier, EXPLANATION, RULE)
    rep.rule("R-LOSSY", "a narrowing cast that reaches the output file must be range-checked (or provably fits)")
    rep.assumptions.append("outputs and in-memory collections are smaller than 4 GiB / 2^31 elements (casts of stream positions and lengths to 32-bit fields are accepted on that basis)")
    table = json.load(open(os.path.join(VERIF, "engine", "tables", "c03_lossy_audit.json")))["entries"]
    roots = [f.id for f in db.fns.values() if re.search(r"::(compile_from_ast|write_to_stream|extend_from_mapfile)$", f.id)]
    roots += [f.id for f in db.fns.values() if re.search(r"^<formats::.* as ast::meta::FromMeta<'_>>::from_meta$", f.id)
              or f.id.endswith("::from_fields")]
    if len(roots) < 14:
        raise Exception("anchors")
    rep.floor("writer entry points", len(roots), 14)
    W = db.reachable(roots)
    used_table = set()
    n_casts = 0
    n_writes = 0
    for f in sorted(db.fns.values(), key=lambda f: (f.file, f.line)):
        if f.gen:
            continue
        root = f.parent or f.id
        if not (f.id in W or root in W):
            continue
        nc, nw = lossy_in_fn(db, rep, f, table, used_table)
        n_casts += nc
        n_writes += nw
    rep.floor("narrowing casts in writer-reachable code", n_casts, 60)
    rep.floor("write-primitive call sites", n_writes, 150)
    rep.extra["narrowing_casts_inspected"] = n_casts
    rep.extra["write_primitive_calls"] = n_writes
    # ---------------- R-CHECKED-RAW: a checked conversion must see the value that was asked for
    rep.rule("R-CHECKED-RAW", "in writer-reachable code an integer TryFrom/TryInto conversion (the range check of a file field) is applied to the value "
                              "itself: a mask, shift, remainder or wrapping operation between the requested value and the check makes the check "
                              "pass for values that do not fit")
    LOSSY_OPS = {"BitAnd", "Shl", "Shr", "Rem", "ShlUnchecked", "ShrUnchecked"}
    n_try = 0
    for f in sorted(db.fns.values(), key=lambda f: (f.file, f.line)):
        if f.gen:
            continue
        root = f.parent or f.id
        if not (f.id in W or root in W):
            continue
        defs = None
        k = 0
        for bi, t in f.calls():
            c = t.get("f", "")
            if not (c.endswith("convert::TryFrom::try_from") or c.endswith("convert::TryInto::try_into")):
                continue
            ga = t.get("ga") or []
            if not ga or not any(re.match(r"^(u|i)(8|16|32|64|size)$", g) for g in ga[:2]):
                continue
            n_try += 1
            rep.site()
            k += 1
            if defs is None:
                defs = lossy.defs_of(f)
            lossy_op = _lossy_op_before(db, f, t["a"][0] if t.get("a") else None, LOSSY_OPS)
            rep.check(lossy_op is None, "R-CHECKED-RAW", "%s|try_from-%d" % (f.id, k), "%s:%d" % (f.file, t["ln"]),
                      "converts the value as requested (%s -> %s)" % (ga[1] if len(ga) > 1 else "?", ga[0]),
                      "the operand of this range check was computed with %s (line %s): bits of the requested value are dropped before the check, so an out-of-range value is accepted and a different value is stored" % (lossy_op or ("?", "?")))
    rep.floor("integer TryFrom/TryInto conversions in writer-reachable code", n_try, 5)
    from props import c15, c12
    rep.absorb(c15.run(db, tier), rules=("R-FIT", "R-NOREPLACE"), why="a string that does not fit or cannot be encoded must be an error, not a different string")
    rep.absorb(c12.run(db, tier), rules=("R-MASK", "R-CODEC-ARMS", "R-DEC-LEN", "R-PADDING"), why="the register mask and the argument bytes read back must be what the call requested")
    # ---------------- R-FILE-CODEC: leading fields of file structures
    rep.rule("R-FILE-CODEC", "sibling reader/writer functions of file headers and table records read and write leading fields of the same widths (symbolic I/O paths)")
    codec.file_codec(db, rep)
    # ---------------- R-CODEC: reader/writer agreement per instruction-header field
    rep.rule("R-CODEC", "reader and writer of an instruction format use the same on-disk type for each header field (bit-preserving sign changes excepted)")
    rep.rule("R-HEADER", "the bytes written before the argument blob add up to instr_header_size()")
    fmts = codec.instr_formats(db)
    rep.floor("InstrFormat impls", len(fmts), 9)
    n_fields = 0
    for name, r, w, h in fmts:
        rep.fn(r)
        rep.fn(w)
        rf = codec.reader_fields(db, r)
        wf = codec.writer_fields(db, w)
        for fld in sorted(set(rf) | set(wf)):
            key = "%s|%s" % (name, fld)
            loc = "%s / %s" % (r.loc, w.loc)
            if fld not in rf or fld not in wf:
                if fld in wf and fld not in rf:
                    rep.bad("R-CODEC", key, loc, "field %s is written (write_%s) but no read primitive feeds it back into RawInstr" % (fld, "/".join(wf[fld])))
                else:
                    # read but never written: acceptable only if the writer emits a constant there (e.g. STD06 argsize 12)
                    rep.ok("R-CODEC", key, loc, "read with read_%s; the writer emits a constant / nothing for it" % "/".join(p for p, _ in rf[fld]))
                continue
            n_fields += 1
            problems = [codec.compare(p, c, x) for p, c in rf[fld] for x in wf[fld]]
            problems = [p for p in problems if p]
            rep.check(not problems, "R-CODEC", key, loc, "read_%s <-> write_%s" % ("/".join(p for p, _ in rf[fld]), "/".join(wf[fld])),
                      "; ".join(problems))
        # header size
        if h is not None:
            size = None
            for b in h.blocks:
                for st in b["s"]:
                    if st["r"] == "use" and place_local(st["d"]) == 0 and isinstance(st["o"], dict) and "iv" in st["o"]:
                        size = st["o"]["iv"]
            total = 0
            for bi, t in w.calls():
                m = codec.WPRIM.match(t.get("f", ""))
                if m:
                    total += codec.BITS[m.group(1)] // 8
                elif t.get("f") == "io::BinWrite::write_all" and len(t["a"]) > 1:
                    l = op_local(t["a"][1])
                    ty = w.local_ty(l) if l is not None else ""
                    for b2 in w.blocks:       # an unsizing coercion `&[u8; N] as &[u8]`
                        for st in b2["s"]:
                            if st["r"] == "cast" and place_local(st["d"]) == l:
                                ty = db.types[st["from"]]
                    mm = re.match(r"^&\[u8; (\d+)\]$", ty)
                    if mm:
                        total += int(mm.group(1))
            rep.check(size is not None and total == size, "R-HEADER", "%s|header-size" % name, w.loc,
                      "writes %d header bytes == instr_header_size() %s" % (total, size),
                      "write_instr emits %d bytes before the argument blob but instr_header_size() returns %s: offsets and sizes computed from it are wrong" % (total, size))
    rep.floor("paired header fields", n_fields, 30)
    # ---------------- R-UTF8-LEN: byte counts in the output come from encoded bytes, never from source text
    rep.rule("R-UTF8-LEN", "writer-reachable code of the binary layer (formats::, llir::, io::) never measures text with str::len / "
                           "String::len / chars().count(): lengths, paddings and offsets written to a file must be taken from the "
                           "Shift-JIS `Encoded` bytes that are actually written")
    n_scan = 0
    n_len = 0
    for f in sorted(db.fns.values(), key=lambda f: (f.file, f.line)):
        root_id = f.parent if (f.closure and f.parent) else f.id
        if f.gen or (f.id not in W and root_id not in W):
            continue
        if not re.match(r"^<?(formats::|llir::|io::)", f.id):
            continue
        n_scan += 1
        for bi, t in f.calls():
            c = t.get("f", "")
            if c in ("core::str::<impl str>::len", "alloc::string::String::len", "core::str::<impl str>::chars"):
                n_len += 1
                dl = place_local(t["d"])
                sinks = lossy.forward_sinks(db, f, dl, bi, re.compile(r"^(io::BinWrite::|io::Encoded::|alloc::vec::Vec::<T, A>::resize)")) if dl is not None else [("?", "?")]
                if not sinks:
                    rep.ok("R-UTF8-LEN", "%s|%s|unwritten-%d" % (f.id, c.rsplit("::", 1)[-1], n_len), "%s:%d" % (f.file, t["ln"]),
                           "a text length that does not flow into the file or into a writer call")
                    continue
                rep.bad("R-UTF8-LEN", "%s|%s" % (f.id, c.rsplit("::", 1)[-1]), "%s:%d" % (f.file, t["ln"]),
                        "the UTF-8 length of source text is used in the binary writer layer: for non-ASCII text it differs from the number of "
                        "Shift-JIS bytes written, so sizes / alignment padding / offsets derived from it are wrong")
    rep.check(True, "R-UTF8-LEN", "binary-layer|scan", "src/formats", "%d writer-reachable functions of the binary layer scanned" % n_scan)
    rep.floor("writer-reachable binary-layer functions scanned for text lengths", n_scan, 150)
    stale = sorted(set(table) - used_table)
    if stale:
        rep.note("audit-table entries not matched by any cast on this tree (stale, harmless): %s" % stale)
    return rep
