"""C18 Debug info describes the file that was actually written (structural clauses)."""
from common import Report
from facts import op_local, op_place, place_local, place_proj
from rules import flow, codec, arms

EXPLANATION = (
    "Static rules over llir::lower (gather_label_info, lower_sub_ast_to_instrs, substitute_dummy_args), "
    "stackless::assign_registers and context::consts.  R-TWO-PASS: the offset pass and the final pass both encode "
    "through the same encode_args, and each pass owns a *fresh* ArgEncodingState created in the function that runs the "
    "pass (state is not shared between passes, so state-dependent sizes such as the furigana quirk are reproduced); the "
    "dummy substitution keeps the argument list shape (Raw for every special argument).  R-OFFSET: the offset stored "
    "in debug_info::Instr, pushed to stmt_offsets and advanced by instr_size(encode_args(..)) is one and the same "
    "storage, recorded in the Instr arm before the size is added; debug_info::Label and RawLabelInfo are built from the "
    "same (offset, time) operands; end_offset is that same accumulator.  R-HEADER: instr_size = instr_header_size() + "
    "blob length and the header size equals the bytes write_instr emits (shared with C03).  R-LOCAL-REG: the register "
    "recorded in debug_info::Local.bound_to is the very value inserted into local_regs (scratch and parameter "
    "branches).  R-CONST: Consts::debug_info reads the same `values` map that constant lookups use.  Decides these "
    "code-shape conditions, not the numbers in a concrete debug-info file.")
RULE = "instance = one encode_args call site / offset use / debug record construction"

GL = "llir::lower::gather_label_info"
LS = "llir::lower::lower_sub_ast_to_instrs"


def run(db, tier):
    rep = Report("C18", tier, EXPLANATION, RULE)
    for r, t in (("R-TWO-PASS", "offset pass and final pass encode identically, each with a fresh encoder state"),
                 ("R-OFFSET", "recorded offsets are the offsets used for label resolution and advance by the real instruction size"),
                 ("R-HEADER", "instruction size used for offsets equals the bytes written"),
                 ("R-LOCAL-REG", "debug info records the register that the code uses"),
                 ("R-CONST", "debug info reads the constant values the compiler used")):
        rep.rule(r, t)

    # ---------------- R-TWO-PASS
    sites = []
    for f in db.fns.values():
        if f.gen:
            continue
        for bi, t in f.calls():
            if t.get("f") == "llir::lower::encode_args":
                sites.append((f, bi, t))
    rep.floor("encode_args call sites", len(sites), 2)
    roots = set()
    for f, bi, t in sites:
        rep.fn(f)
        root = f.id.split("::{closure#")[0]
        roots.add(root)
        p = op_place(t["a"][0])
        of, oc = flow.trace_to_origin(db, f, p)
        d = flow.Defs(of)
        fresh = False
        if oc[0] == "local":
            srcs = d.sources(oc[1])
            fresh = flow.has_call_source(srcs, "ArgEncodingState::new")
        elif oc[0] == "call":
            fresh = str(oc[1]).endswith("ArgEncodingState::new")
        key = "%s|encode_args-state" % f.id
        rep.check(fresh and of.id == root, "R-TWO-PASS", key, "%s:%d" % (f.file, t["ln"]),
                  "encoder state is a local of %s created by ArgEncodingState::new()" % root,
                  "the ArgEncodingState used here is not created fresh inside %s (origin: %s in %s): state from another pass leaks into this one" % (root, oc[:2], of.id))
    rep.check({GL, LS} <= roots, "R-TWO-PASS", "both-passes-use-encode_args", db.fn(GL).loc, "the offset pass and the final pass both call encode_args",
              "encode_args is not used by both gather_label_info and lower_sub_ast_to_instrs (callers: %s)" % sorted(roots))
    sd = db.fn("llir::lower::substitute_dummy_args")
    rep.fn(sd)
    ok = False
    for m in arms_matches(db, sd, "llir::lower::LowerArg"):
        kinds = {}
        for arm in m["arms"]:
            for s in arms.pat_sig(arm["p"]):
                raw = any(n.get("k") in ("Call", "Struct") and (n.get("f") or n.get("p") or "").endswith("LowerArg::Raw") for n in walk(arm["b"])) \
                      or any(c.endswith("Clone::clone") for c in arms.calls_in(arm["b"]))
                kinds[s.split("{")[0].split("(")[0]] = raw or bool(arm["b"].get("never"))
        ok = all(kinds.get("llir::lower::LowerArg::" + v, False) for v in ("Label", "TimeOf", "Local", "Raw"))
    rep.check(ok, "R-TWO-PASS", "substitute_dummy_args|shape-preserving", sd.loc, "every special argument is replaced by a Raw argument (same encoded size)",
              "substitute_dummy_args does not map every argument kind to a Raw argument")

    # ---------------- R-OFFSET
    gl = db.fn(GL)
    rep.fn(gl)
    cls = [c for c in db.fns.values() if c.id.startswith(GL + "::{closure#")]
    instr_aggs, label_aggs, rawlabel_aggs, pushes_off, adds = [], [], [], [], []
    for c in cls:
        for bi, b in enumerate(c.blocks):
            for s in b["s"]:
                if s["r"] == "agg" and s.get("adt") == "debug_info::Instr":
                    instr_aggs.append((c, bi, s))
                if s["r"] == "agg" and s.get("adt") == "debug_info::Label":
                    label_aggs.append((c, bi, s))
                if s["r"] == "agg" and s.get("adt") == "llir::lower::RawLabelInfo":
                    rawlabel_aggs.append((c, bi, s))
                if s["r"] == "binop" and s["op"] in ("Add", "AddWithOverflow"):
                    adds.append((c, bi, s))
            t = b["t"]
            if t["k"] == "call" and t.get("f", "").endswith("Vec::<T, A>::push") and "u64" in (t.get("ga") or [""])[0]:
                pushes_off.append((c, bi, t))
    rep.floor("debug_info::Instr constructions", len(instr_aggs), 1)
    rep.floor("debug_info::Label constructions", len(label_aggs), 1)

    def origin_of_operand(c, o):
        p = op_place(o)
        if p is None:
            return None
        d = flow.Defs(c)
        # the operand is a copy of `*upvar`: find the place it was copied from
        l = place_local(p)
        for bj, si, s, pj in d.stmts.get(l, []):
            if s["r"] == "use" and not pj:
                q = op_place(s["o"])
                if q is not None:
                    of, oc = flow.trace_to_origin(db, c, q)
                    return (of.id, oc[0], oc[1])
        of, oc = flow.trace_to_origin(db, c, p)
        return (of.id, oc[0], oc[1])

    off_origins = set()
    for c, bi, t in pushes_off:
        off_origins.add(origin_of_operand(c, t["a"][1]))
    for c, bi, s in instr_aggs:
        o = origin_of_operand(c, s["ops"][s["fn"].index("offset")])
        same = o in off_origins and o is not None and o[0] == GL
        # recorded before the instruction is encoded (start offset)
        enc = [x for x, tt in c.calls() if tt.get("f") == "llir::lower::encode_args"]
        before = bool(enc) and all(x in c.reachable_from(bi) and bi not in c.reachable_from(x) for x in enc)
        rep.check(same and before, "R-OFFSET", "%s|debug Instr.offset" % c.id, "%s:%d" % (c.file, s["ln"]),
                  "Instr.offset is the running offset of gather_label_info, recorded before the instruction's size is added",
                  "debug_info::Instr.offset %s" % ("is not the running offset that label resolution uses (origin %s, stmt_offsets origin %s)" % (o, sorted(off_origins, key=str)) if not same
                                                   else "is not recorded in the same step that encodes the instruction"))
    if not instr_aggs:
        pass
    # the accumulator advances by instr_size(encode_args result)
    adv = False
    for c in cls:
        d = flow.Defs(c)
        for bi, t in c.calls():
            if t.get("f", "").endswith("InstrFormat::instr_size"):
                srcs = d._op_sources(t["a"][1], 0, set(), True) if len(t["a"]) > 1 else set()
                if flow.has_call_source(srcs, "encode_args"):
                    adv = True
    rep.check(adv, "R-OFFSET", "advance|instr_size(encode_args(..))", gl.loc, "the offset advances by the size of the instruction as encoded",
              "the running offset is not advanced by instr_size of the encoded instruction")
    for (c, bi, s) in label_aggs:
        lo = origin_of_operand(c, s["ops"][s["fn"].index("offset")])
        lt = op_place(s["ops"][s["fn"].index("time")])
        match = False
        for (c2, bj, s2) in rawlabel_aggs:
            if c2.id != c.id:
                continue
            ro = origin_of_operand(c2, s2["ops"][s2["fn"].index("offset")])
            d2 = flow.Defs(c2)
            t1 = flow.canon_place(c, lt, flow.Defs(c)) if lt is not None else None
            rt = op_place(s2["ops"][s2["fn"].index("time")])
            t2 = flow.canon_place(c2, rt, d2) if rt is not None else None
            if ro == lo and t1 is not None and t1 == t2:
                match = True
        rep.check(match, "R-OFFSET", "%s|debug Label == RawLabelInfo" % c.id, "%s:%d" % (c.file, s["ln"]),
                  "debug_info::Label and RawLabelInfo are built from the same offset and time", "the label recorded in debug info does not use the same offset/time operands as the label table")
    # end_offset
    ok = False
    d = flow.Defs(gl)
    for cc in [gl] + cls:
        for b in cc.blocks:
            for s in b["s"]:
                if s["r"] == "agg" and s.get("adt") == "debug_info::ScriptOffsetInfo":
                    o = origin_of_operand(cc, s["ops"][s["fn"].index("end_offset")])
                    p = op_place(s["ops"][s["fn"].index("end_offset")])
                    cp = flow.canon_place(cc, p, flow.Defs(cc)) if p is not None else None
                    if (o in off_origins) or (cp is not None and (cc.id, cp[0], cp[1]) in off_origins):
                        ok = True
    rep.check(ok, "R-OFFSET", "end_offset|same-accumulator", gl.loc, "end_offset is the final value of the running offset", "end_offset is not the running offset")

    # ---------------- R-HEADER
    isz = db.fn("llir::InstrFormat::instr_size")
    rep.fn(isz)
    cs = [t.get("f", "") for _, t in isz.calls()]
    rep.check(any(c.endswith("instr_header_size") for c in cs) and any(c.endswith("::len") for c in cs), "R-HEADER", "instr_size|header+len", isz.loc,
              "instr_size = instr_header_size() + args_blob.len()", "instr_size is no longer header size + blob length")
    for name, r, w, h in codec.instr_formats(db):
        if h is None:
            continue
        size = None
        for b in h.blocks:
            for st in b["s"]:
                if st["r"] == "use" and place_local(st["d"]) == 0 and isinstance(st["o"], dict) and "iv" in st["o"]:
                    size = st["o"]["iv"]
        total = 0
        import re
        for bi, t in w.calls():
            m = codec.WPRIM.match(t.get("f", ""))
            if m:
                total += codec.BITS[m.group(1)] // 8
            elif t.get("f") == "io::BinWrite::write_all" and len(t["a"]) > 1:
                l = op_local(t["a"][1])
                ty = w.local_ty(l) if l is not None else ""
                for b2 in w.blocks:
                    for st in b2["s"]:
                        if st["r"] == "cast" and place_local(st["d"]) == l:
                            ty = db.types[st["from"]]
                mm = re.match(r"^&\[u8; (\d+)\]$", ty)
                if mm:
                    total += int(mm.group(1))
        rep.check(size is not None and total == size, "R-HEADER", "%s|header-size" % name, w.loc, "%d header bytes written == instr_header_size()" % total,
                  "write_instr emits %d header bytes but instr_header_size() is %s: every recorded offset after the first instruction is wrong" % (total, size))

    # ---------------- R-LOCAL-REG
    ar = db.fn("llir::lower::stackless::assign_registers")
    rep.fn(ar)
    da = flow.Defs(ar)
    locals_aggs = []
    for bi, b in enumerate(ar.blocks):
        for s in b["s"]:
            if s["r"] == "agg" and s.get("adt") == "debug_info::Local":
                locals_aggs.append((bi, s))
    rep.floor("debug_info::Local constructions", len(locals_aggs), 2)
    inserts = [(bi, t) for bi, t in ar.calls() if t.get("f", "").endswith("HashMap::<K, V, S, A>::insert") and (t.get("ga") or ["", ""])[:2] == ["resolve::DefId", "resolve::RegId"]]
    dom = ar.dominators()
    for i, (bi, s) in enumerate(locals_aggs):
        o = s["ops"][s["fn"].index("bound_to")]
        src_l = _reg_origin(ar, da, op_local(o))
        ok = False
        for bj, t in inserts:
            if bj in dom.get(bi, ()) or bi in dom.get(bj, ()):
                ins_l = _reg_origin(ar, da, op_local(t["a"][2]))
                if ins_l is not None and ins_l == src_l:
                    ok = True
        rep.check(ok, "R-LOCAL-REG", "Local.bound_to-%d" % (i + 1), "%s:%d" % (ar.file, s["ln"]),
                  "bound_to is the register inserted into local_regs", "debug_info::Local.bound_to is not the value inserted into local_regs for this local")

    # ---------------- R-CONST
    cd = db.fn("context::consts::Consts::debug_info")
    gc = db.fn("context::consts::Consts::get_cached_value")
    rep.fn(cd)
    rep.fn(gc)

    def fields(f):
        out = set()
        for b in f.blocks:
            for s in b["s"]:
                for k in ("p", "o"):
                    p = s.get(k)
                    p = op_place(p) if k == "o" and isinstance(p, dict) else p
                    if isinstance(p, dict) and "p" in p:
                        for e in p["p"]:
                            if isinstance(e, list) and e[0] == "f" and e[2] == "context::consts::Consts":
                                out.add(e[1])
        return out
    fa, fb = fields(cd), fields(gc)
    rep.check(bool(fa & fb), "R-CONST", "Consts::debug_info|same-map", cd.loc, "debug_info and get_cached_value read the same field %s" % sorted(fa & fb),
              "Consts::debug_info reads %s but constant lookups read %s" % (sorted(fa), sorted(fb)))
    # ---------------- R-INSTR-BYTES: what write_instr puts in the file is header + blob, and nothing after lowering edits the list
    import re as _re
    rep.rule("R-INSTR-BYTES", "the offset pass counts instr_size() = header + argument blob per instruction and runs inside lower_sub: (a) no write_instr "
                              "implementation writes anything after the blob, (b) the instruction vector returned by Lowerer::lower_sub is stored in "
                              "the output script without being filtered, reordered or extended")
    n_wi = 0
    for im in db.impls:
        if im["trait"] != "llir::InstrFormat" or im["self"].startswith("llir::Test"):
            continue
        for it in im["items"]:
            if it["n"] != "write_instr":
                continue
            g = db.fns.get(it["id"])
            if g is None:
                continue
            n_wi += 1
            rep.fn(g)
            writes = [(bi, t) for bi, t in g.calls() if _re.match(r"^io::BinWrite::write_", t.get("f") or "") and not g.blocks[bi].get("cleanup")]
            dw = flow.Defs(g)
            blob = [bi for bi, t in writes if (t.get("f") or "").endswith("write_all") and len(t["a"]) > 1 and
                    any(x[0] == "field" and x[2] == "args_blob" for x in dw._op_sources(t["a"][1], 0, set(), True))]
            after = []
            for b0 in blob:
                reach = g.reachable_from(b0)
                after += [t["ln"] for bi, t in writes if bi in reach and bi != b0]
            ok = bool(blob)
            last_ok = not after
            rep.check(ok and last_ok, "R-INSTR-BYTES", "%s|nothing after the blob" % im["self"], g.loc, "the argument blob is the last thing written",
                      "%s::write_instr writes more bytes after the argument blob (lines %s): the instruction is longer in the file than instr_size() says, so every later offset in the debug info is too small" % (im["self"], sorted(set(after))))
    rep.floor("write_instr implementations", n_wi, 8)
    MUT = _re.compile(r"Vec::<T, A>::(retain|retain_mut|remove|swap_remove|truncate|insert|push|pop|drain|dedup\w*|clear|extend\w*|append|splice)$|<impl \[T\]>::(sort\w*|reverse|swap)$")
    n_ls = 0
    for g in sorted(db.fns.values(), key=lambda g: (g.file, g.line)):
        if g.gen or not g.file.startswith("src/formats/"):
            continue
        if not any(_re.search(r"Lowerer::<'\w+>::lower_sub$|Lowerer::lower_sub$", t.get("f") or "") for _, t in g.calls()):
            continue
        n_ls += 1
        rep.fn(g)
        bad_m = [(t["ln"], (t.get("f") or "").rsplit("::", 1)[-1]) for bi, t in g.calls()
                 if MUT.search(t.get("f") or "") and (t.get("ga") or [""])[0] == "llir::RawInstr" and not g.blocks[bi].get("cleanup")]
        rep.check(not bad_m, "R-INSTR-BYTES", "%s|lowered instructions are final" % root_name(g.id), g.loc, "the lowered instruction list is stored as returned",
                  "%s edits the instruction list after lowering (%s): offsets, labels and the end offset in the debug info were computed for the unedited list" % (g.id, bad_m))
    rep.floor("callers of Lowerer::lower_sub in src/formats", n_ls, 4)
    # ---------------- R-EXPORT: the script a debug-info record claims to describe is the script at that position of the output
    import json as _json
    rep.rule("R-EXPORT", "the index recorded in `exported-as` is the position the compiled script takes in the written file: taken from the "
                         "file-wide order table / the output container itself, never from a counter over a part of the file")
    EXPECT = {
        "AnmScript": (("get_index_of",), "file-wide script table (script_ids.get_index_of(name))"),
        "OldeEclSub": (("::len",), "number of subs already stored in the output map (subs.len())"),
        "SclScript": (("Iterator::next",), "the timeline's slot in file order (also used to store the compiled timeline)"),
        "MsgScript": (("::get",), "the script's rows of the dense script table, looked up by name"),
    }
    n_exp = 0
    for f in sorted(db.fns.values(), key=lambda f: (f.file, f.line)):
        if f.gen or not f.file.startswith("src/formats/"):
            continue
        d = None
        for b in f.blocks:
            for st in b["s"]:
                adt = st.get("adt") or ""
                if st["r"] != "agg" or not adt.startswith("debug_info::ScriptType") or not st["ops"]:
                    continue
                txt = _json.dumps(st)
                vname = None
                for cand in EXPECT:
                    if cand in txt:
                        vname = cand
                if vname is None:
                    continue
                if d is None:
                    d = flow.Defs(f)
                n_exp += 1
                rep.fn(f)
                ds = flow.deep_sources(f, d, st["ops"][0])
                calls = sorted(set(x[1] for x in ds if x[0] == "call"))
                want, what = EXPECT[vname]
                ok = any(any(c.endswith(w) for w in want) for c in calls)
                counter = [c for c in calls if "Enumerate" in c or c.endswith("Iterator::enumerate")]
                if vname == "AnmScript":
                    ok = ok and not counter
                rep.check(ok, "R-EXPORT", "%s|index provenance" % vname, "%s:%d" % (f.file, st["ln"]), "index comes from the " + what,
                          "the exported index of %s does not come from the %s (sources: %s): the record names another script of the output file" % (vname, what, calls[:6]))
    rep.floor("ScriptType records with an index", n_exp, 4)
    return rep


def root_name(fid):
    i = fid.find("::{closure")
    return fid[:i] if i > 0 else fid


def _reg_origin(f, d, local):
    """follow copies / From::from conversions back to the defining local of a register value"""
    seen = set()
    while local is not None and local not in seen:
        seen.add(local)
        nxt = None
        for bi, si, s, pj in d.stmts.get(local, []):
            if not pj and s["r"] == "use":
                nxt = op_local(s["o"])
        for bi, t in d.calls.get(local, []):
            if t.get("f") in ("core::convert::Into::into", "core::convert::From::from") and t["a"]:
                nxt = op_local(t["a"][0])
        if nxt is None:
            return local
        local = nxt
    return local


def walk(n):
    from facts import hir_walk
    return hir_walk(n)


def arms_matches(db, f, enum_path):
    from rules.visit import find_matches
    return find_matches(f, db, enum_path)
