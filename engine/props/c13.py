"""C13 Every instruction gets exactly the time its labels say (structural clauses)."""
from common import Report
from facts import MissingAnchor, hir_walk, op_local, op_place, place_local, place_proj
from rules import arms, flow, codec, visit
from props.c10 import blocks_of, stmt_exprs, top_calls

EXPLANATION = (
    "Static rules.  R-TIME-LABEL: in TimeAndDifficultyHelper::visit_stmt_shallow an absolute label stores its value, a "
    "relative label adds with i32::wrapping_add (no overflow Assert in the function), and no other statement kind "
    "touches the time stack.  R-TIME-PAIR: enter/exit calls of the helper are balanced in both visitors that use it.  "
    "R-TIME-COPY: the time written into RawInstr (encode_args) is a plain copy of LowerInstr.stmt_data.time, which is "
    "looked up by the statement's own node id.  R-TIME-CODEC: every instruction format reads the time field with the "
    "signedness it writes it with (shared with C03 R-CODEC).  R-LABEL-EMIT: the HIR decision tree of LabelEmitter::emit_offset_and_time_labels_with is "
    "evaluated over one representative of every ordering of (prev_time, time, 0 and each literal it compares with) - the "
    "function touches these values only through comparisons and time-prev_time, so the orderings are exhaustive for its "
    "logic; on every path the emitted `N:` / `+N:` labels applied to prev_time must give `time` (negative times and "
    "decreases included) and prev_time must be updated; no panicking arithmetic on times.  R-RECOG-TIME: "
    "the three decompile recognisers that merge several instructions into one statement (difficulty switch, two-part "
    "conditional jump, register call) accept only after comparing the times of the merged instructions (the "
    "comparison's branch dominates the accept site and its other edge cannot reach it).  Decides these conditions, not "
    "that emitted labels reproduce stored times for concrete files.")
RULE = "instance = one statement arm / bracket block / copy chain / format / comparison guard"

H = "passes::semantics::time_and_difficulty::TimeAndDifficultyHelper::"
RI = "llir::raise::RaiseInstr"


def bracket_check(rep, rule, f, pairs, label):
    """pairs: {enter suffix: exit suffix}.  Every block of f must have balanced enter/exit calls."""
    n = 0
    bi = 0
    for blk in blocks_of(f.hir):
        seq = []
        for e in stmt_exprs(blk):
            for c in top_calls(e):
                name = (c.get("f") or "").rsplit("::", 1)[-1]
                if name in pairs:
                    seq.append(("enter", name, c["ln"]))
                elif name in pairs.values():
                    seq.append(("exit", name, c["ln"]))
        if not seq:
            continue
        bi += 1
        stack = []
        ok, why = True, ""
        for kind, name, ln in seq:
            if kind == "enter":
                stack.append((name, ln))
            else:
                if not stack or pairs[stack[-1][0]] != name:
                    ok, why = False, "%s at line %d does not close the innermost enter (%s)" % (name, ln, stack[-1][0] if stack else "none")
                    break
                stack.pop()
        if ok and stack:
            ok, why = False, "%s at line %d has no matching exit in the same block" % stack[-1]
        n += len(seq) // 2
        rep.check(ok, rule, "%s|%s|block-%d" % (label, f.id, bi), "%s:%d" % (f.file, seq[0][2]),
                  "balanced: %s" % " ".join(s[1] for s in seq), why)
    return n


def _label_emit_orderings(rep, le):
    """R-LABEL-EMIT by order-abstract evaluation: for every ordering of (prev_time, time, 0 and every literal the
    function compares with) the labels emitted along every path of the HIR decision tree, applied to prev_time
    (`N:` sets, `+N:` adds), must give `time`; and prev_time must be `time` afterwards."""
    from rules import ordeval
    from facts import hir_walk as walk

    def sp_value(n):
        # sp!(x) is `Sp { span, value: x }`
        if isinstance(n, dict) and n.get("k") == "Struct" and n.get("p", "").endswith("span::Sp"):
            for name, e in n["fs"]:
                if name == "value":
                    return e
        return n

    def event(n, E, env):
        for x in walk(n):
            if x is not n and x.get("k") in ("Call", "MCall") and x.get("k") == "Closure":
                continue
            if x.get("k") == "Call" and (x.get("f") or "").endswith("StmtKind::AbsTimeLabel"):
                return ("abs", E.ev(sp_value(x["a"][0]), env))
            if x.get("k") == "Struct" and x.get("p", "").endswith("StmtKind::RelTimeLabel"):
                for name, e in x["fs"]:
                    if name == "delta":
                        return ("rel", E.ev(sp_value(e), env))
        return None
    E = ordeval.Evaluator(le, event)
    dom = ordeval.domain(le)
    params = [p.get("n") for p in le.d["hparams"]]
    if "time" not in params:
        raise MissingAnchor("parameter `time` of emit_offset_and_time_labels_with")
    n_case = n_path = 0
    bad = None
    undecided = None
    for a in ordeval.assignments(["time", "self.prev_time"], dom):
        n_case += 1
        for env, evs, _ in E.run_block(le.hir, (dict(a), [])):
            n_path += 1
            t = a["self.prev_time"]
            for kind, v in evs:
                if not isinstance(v, int) or isinstance(v, bool):
                    undecided = "a time label with a value the evaluator cannot follow (%s)" % kind
                    continue
                t = v if kind == "abs" else ordeval.wrap(t + v)
            after = env.get("self.prev_time")
            if t != a["time"] and bad is None:
                bad = "prev_time=%d, time=%d: the emitted labels %s lead to time %d" % (a["self.prev_time"], a["time"], evs, t)
            elif after != a["time"] and bad is None:
                bad = "prev_time=%d, time=%d: prev_time is %s after the call (must be the instruction's time)" % (a["self.prev_time"], a["time"], after)
    if undecided and bad is None:
        from common import Broken
        raise Broken("R-LABEL-EMIT: " + undecided)
    rep.floor("orderings evaluated for label emission", n_case, 25)
    rep.site(n_path)
    rep.check(bad is None, "R-LABEL-EMIT", "orderings|labels reproduce the time", le.loc,
              "%d (prev_time, time) representatives over %s, %d paths: emitted labels always reproduce `time`, prev_time updated" % (n_case, dom, n_path),
              "label emission does not reproduce the stored time: %s" % bad)


def run(db, tier):
    rep = Report("C13", tier, EXPLANATION, RULE)
    for r, t in (("R-TIME-LABEL", "label statements are the only writers of the current time; relative labels wrap"),
                 ("R-TIME-PAIR", "helper enter/exit calls are balanced"),
                 ("R-TIME-COPY", "the emitted instruction's time is a copy of the statement's computed time"),
                 ("R-TIME-CODEC", "time fields are read with the signedness they are written with"),
                 ("R-LABEL-EMIT", "label emission handles decreases, increases and sign crossings; deltas wrap"),
                 ("R-RECOG-TIME", "instructions are merged by the decompiler only if their times are equal")):
        rep.rule(r, t)

    # ---------------- R-TIME-LABEL
    f = db.fn(H + "visit_stmt_shallow")
    rep.fn(f)
    m = arms.first_match(f, db, "ast::StmtKind")
    seen = {}
    for vs, arm in arms.simple_table(m):
        for v in vs:
            seen[v] = arm
    a = seen.get("ast::StmtKind::AbsTimeLabel")
    from rules import hirq
    asg = [n for n in hir_walk(a["b"])] if a is not None else []
    asg = [n for n in asg if n.get("k") == "Assign"]
    ok = False
    if len(asg) == 1:
        rf = hirq.features(f, asg[0]["r"], {})
        lf = hirq.features(f, asg[0]["l"], {})
        # right-hand side: the label's own value, read through fields only (no call, no arithmetic, no literal)
        bound = set(hirq._bound_names(a["p"]))
        ok = (not any(t in ("call", "lit") for t, _ in rf) and any(t == "local" and v in bound for t, v in rf)
              and not any(n.get("k") in ("Binary", "Unary", "If", "Match") for n in hir_walk(asg[0]["r"]))
              and ("field", "time_stack") in lf and hirq.has_call(lf, "last_mut"))
    rep.check(ok, "R-TIME-LABEL", "AbsTimeLabel|stores", f.loc, "`N:` assigns N to the current time", "the AbsTimeLabel arm is not a plain store of the label value")
    r = seen.get("ast::StmtKind::RelTimeLabel")
    ok = r is not None and "core::num::<impl i32>::wrapping_add" in arms.calls_in(r["b"])
    rep.check(ok, "R-TIME-LABEL", "RelTimeLabel|wrapping_add", f.loc, "`+N:` adds with wrapping_add", "the RelTimeLabel arm does not use i32::wrapping_add")
    w = seen.get("_")
    others_empty = w is not None and arms.abstract(w["b"])[0] in ("unit",) or (w is not None and not w["b"].get("ss") and "e" not in w["b"])
    extra = [v for v in seen if v not in ("ast::StmtKind::AbsTimeLabel", "ast::StmtKind::RelTimeLabel", "_")]
    rep.check(others_empty and not extra, "R-TIME-LABEL", "other-kinds|no-effect", f.loc, "no other statement kind changes the time",
              "statement kinds other than the two time labels affect the time stack: %s" % (extra or "non-empty wildcard arm"))
    n_ovf = sum(1 for b in f.blocks if b["t"]["k"] == "assert" and b["t"]["msg"].startswith("overflow"))
    rep.check(n_ovf == 0, "R-TIME-LABEL", "visit_stmt_shallow|no-overflow-assert", f.loc, "no panicking arithmetic on times", "%d panicking arithmetic operation(s) on times" % n_ovf)
    g = db.fn(H + "enter_root_block")
    rep.fn(g)
    zero = any(t.get("f", "").endswith("Vec::<T, A>::push") and any(isinstance(o, dict) and o.get("iv") == 0 for o in t["a"]) for _, t in g.calls())
    rep.check(zero, "R-TIME-LABEL", "enter_root_block|starts-at-0", g.loc, "scripts start at time 0", "enter_root_block does not push time 0")

    # ---------------- R-TIME-PAIR
    pairs = {"enter_stmt": "exit_stmt", "enter_block": "exit_block", "enter_root_block": "exit_root_block"}
    n = 0
    users = [x for x in db.fns.values() if not x.gen and x.hir is not None and not x.id.startswith(H)
             and any((c or "").startswith(H + "enter_") for c in arms.calls_in(x.hir))]
    OPEN_OK = {"passes::semantics::time_and_difficulty::run": "entry point: opens a root block for the whole visit; the helper is dropped at the end"}
    for u in sorted(users, key=lambda x: x.id):
        rep.fn(u)
        if u.id in OPEN_OK:
            rep.ok("R-TIME-PAIR", "helper|%s|entry" % u.id, u.loc, OPEN_OK[u.id])
            continue
        n += bracket_check(rep, "R-TIME-PAIR", u, pairs, "helper")
    rep.floor("helper enter/exit pairs", n, 5)

    # ---------------- R-TIME-COPY
    e = db.fn("llir::lower::encode_args")
    rep.fn(e)
    d = flow.Defs(e)
    k = 0
    for b in e.blocks:
        for s in b["s"]:
            if s["r"] == "agg" and s.get("adt") == "llir::RawInstr":
                k += 1
                idx = s["fn"].index("time")
                o = s["ops"][idx]
                p = op_place(o)
                srcs = d._op_sources(o, 0, set(), True)
                pure = not any(x[0] in ("binop", "call") and not (x[0] == "call" and x[1] in flow.TRANSPARENT_CALLS) for x in srcs)
                from_field = any(x[0] == "field" and x[2] == "time" for x in srcs) and any(x[0] == "field" and x[2] == "stmt_data" for x in srcs)
                rep.check(pure and from_field, "R-TIME-COPY", "encode_args|RawInstr-%d" % k, "%s:%d" % (e.file, s["ln"]),
                          "RawInstr.time = instr.stmt_data.time (copy)", "RawInstr.time is not a plain copy of LowerInstr.stmt_data.time (sources %s)" % sorted(x[:3] for x in srcs if x[0] != "param")[:6])
    rep.floor("RawInstr constructions in encode_args", k, 2)
    # LowerInstr.stmt_data comes from the stmt_data map indexed by the statement's node id
    n_li = 0
    for g in db.fns.values():
        if g.gen or not g.id.startswith("llir::lower::stackless::"):
            continue
        dg = None
        for b in g.blocks:
            for s in b["s"]:
                if s["r"] == "agg" and s.get("adt") == "llir::lower::LowerInstr" and "stmt_data" in s.get("fn", []):
                    n_li += 1
    rep.floor("LowerInstr constructions in the stackless lowerer", n_li, 1)
    lw = db.fn("llir::lower::stackless::SingleSubLowerer::<'_, '_>::lower_sub_ast")
    rep.fn(lw)
    idx_ok = False
    for g in db.with_closures(lw):
        dl = flow.Defs(g)
        for bi, t in g.calls():
            if t.get("f") == "core::ops::index::Index::index" and "TimeAndDifficulty" in " ".join(t.get("ga", [])):
                srcs = dl._op_sources(t["a"][1], 0, set(), True) if len(t["a"]) > 1 else set()
                if any(x[0] == "field" and x[2] == "node_id" for x in srcs):
                    idx_ok = True
    rep.check(idx_ok, "R-TIME-COPY", "lower_sub_ast|stmt_data[node_id]", lw.loc, "a statement's time/difficulty is looked up by its own node id",
              "lower_sub_ast does not index stmt_data with the statement's node_id")

    # ---------------- R-TIME-CODEC
    for name, r_, w_, h_ in codec.instr_formats(db):
        rf = codec.reader_fields(db, r_).get("time", [])
        wf = codec.writer_fields(db, w_).get("time", [])
        probs = [codec.compare(p, c, x) for p, c in rf for x in wf]
        probs = [p for p in probs if p]
        rep.check(bool(rf) and bool(wf) and not probs, "R-TIME-CODEC", "%s|time" % name, r_.loc,
                  "time: read_%s <-> write_%s" % ("/".join(p for p, _ in rf), "/".join(wf)), "; ".join(probs) or "time field not found on both sides")

    # ---------------- R-LABEL-EMIT
    le = db.fn("llir::raise::late::LabelEmitter::emit_offset_and_time_labels_with")
    rep.fn(le)
    _label_emit_orderings(rep, le)
    n_ovf = sum(1 for b in le.blocks if b["t"]["k"] == "assert" and b["t"]["msg"].startswith("overflow"))
    rep.check(n_ovf == 0, "R-LABEL-EMIT", "delta|no-overflow-assert", le.loc, "no panicking arithmetic on times (deltas wrap)",
              "%d panicking arithmetic operation(s) on times in label emission" % n_ovf)
    panics = [t for _, t in le.calls() if t.get("f", "").startswith("core::panicking::")]
    rep.check(len(panics) <= 1, "R-LABEL-EMIT", "single-diverging-exit", le.loc, "at most one diverging exit (label never placed)", "%d panicking exits in label emission" % len(panics))

    # ---------------- R-RECOG-TIME
    for fid in ("llir::raise::recognize::recognize_diff_switch", "llir::raise::recognize::recognize_double_instr_intrinsic",
                "llir::raise::recognize::recognize_reg_call"):
        g = db.fn(fid)
        rep.fn(g)
        dg = flow.Defs(g)
        accepts = []
        for bi, b in enumerate(g.blocks):
            for s in b["s"]:
                if s["r"] == "agg" and s.get("adt") == RI:
                    accepts.append(bi)
            t = b["t"]
            if t["k"] == "call" and t.get("f", "").endswith("Vec::<T, A>::push") and not b.get("cleanup"):
                accepts.append(bi)
        rep.check(bool(accepts), "R-RECOG-TIME", "%s|has-accept" % fid, g.loc, "accept sites found", "no accept site (RaiseInstr construction) found")
        k = 0
        for ab in sorted(set(accepts)):
            k += 1
            hdr = flow.innermost_header(g, ab)
            gs = flow.guards_before(g, ab, dg, hdr)
            if hdr is not None:
                # an accept inside a loop merges the *current element*: the guard must be evaluated per element,
                # i.e. its branch lies inside the loop (a comparison made once before the loop does not count)
                domg = g.dominators()
                gs = [c for c in gs if hdr in domg.get(c["switch"], ())]
            timed = [c for c in gs if any(x[0] == "field" and x[2] == "time" for x in c["a"]) and any(x[0] == "field" and x[2] == "time" for x in c["b"])]
            rep.check(bool(timed), "R-RECOG-TIME", "%s|accept-%d" % (fid, k), "%s:%d" % (g.file, g.blocks[ab]["t"]["ln"]),
                      "accept is guarded by a comparison of the instructions' times", "instructions can be merged here without their times having been compared")
    # ---------------- R-GUARD-REL (shared with C01): presence of a time comparison is not enough - the relation itself
    # (times EQUAL before instructions are folded into one statement) must still be implied by the current guards
    from rules import guardrel
    rep.rule("R-GUARD-REL", "each relation required on the reviewed tree before instructions are folded into one statement (diff switch, two-part "
                            "intrinsic, register call) - in particular equality of their times - is still implied by a current guard with the "
                            "same operands: a one-sided or inverted comparison lets instructions with different times merge, and the label is lost")
    n_gr = guardrel.check(db, rep, ["recognize_diff_switch|fold", "recognize_double_instr_intrinsic|fold", "recognize_reg_call|fold"])
    rep.floor("frozen guard relations (recognisers)", n_gr, 5)
    return rep
