"""C12 Argument encoding and decoding are inverse for every instruction signature (codec tables)."""
import re
from common import Report
from facts import hir_walk, place_local, op_local, op_place
from rules import arms, lossy, flow
from rules.visit import names_used

EXPLANATION = (
    "Static sibling comparison of llir::lower::encode_args and llir::raise::early::decode_args_with_abi: the two "
    "`match *enc` tables over ArgEncoding are read from HIR (pattern constraints incl. literal size/signed sub-patterns) "
    "and must list the same encoding patterns with inverse primitives (write_iN<->read_iN, write_uN<->read_uN, "
    "write_f32<->read_u32+f32::from_bits); each decoder arm must reserve exactly the primitive's width with "
    "decrease_len before reading; both sides consult contributes_to_param_mask / is_always_immediate and shift the mask "
    "by one; Padding is skipped before an argument is consumed on the encoder side, has a default in abi_to_signature "
    "and is the only encoding with one; narrowing integer casts in encode_args are range-checked (R-LOSSY); registers "
    "in register-less languages reach an error; InstrAbi is only constructed by from_encodings, which validates.  "
    "Decides table agreement, not inverse-ness for concrete value lists.")
RULE = "instance = one ArgEncoding pattern (x side), one mask-bookkeeping call, one cast, one constructor site; all non-trivial"

ENC = "llir::lower::encode_args"
DEC = "llir::raise::early::decode_args_with_abi"
AE = "llir::abi::ArgEncoding"
WIDTH = {"i8": 1, "u8": 1, "i16": 2, "u16": 2, "i32": 4, "u32": 4, "f32": 4}


def prims(body, prefix):
    out = []
    for c in arms.calls_in(body):
        m = re.match(r"^io::Bin(Write|Read)::%s_(i8|u8|i16|u16|i32|u32|f32)$" % prefix, c)
        if m:
            out.append(m.group(2))
    return out


def norm_sig(s):
    if s is None:
        return None
    return s.replace("arg0: false, ", "").replace(", arg0: false", "").replace("{arg0: false}", "")


def table(db, fid):
    f = db.fn(fid)
    best = None
    k = 0
    while True:
        m = arms.first_match(f, db, AE, k)
        if m is None:
            break
        if best is None or len(m["arms"]) > len(best["arms"]):
            best = m
        k += 1
    t = {}
    for arm in best["arms"]:
        for s in arms.pat_sig(arm["p"]):
            t.setdefault(norm_sig(s), arm)
    return f, best, t


def rule_jump_adjacent(db, rep):
    """R-JUMP-ADJ: the signature of a jump intrinsic is accepted only if the time argument is DIRECTLY next to the offset argument
    (lowering writes both through one JumpArgOrder slot pair; shared with C04: otherwise the lowerer's slot assertion panics)"""
    from rules import symeval as SY
    SY.set_aliases([])
    rep.rule("R-JUMP-ADJ", "find_and_remove_jump returns LocTime only if time_index == offset_index + 1 and TimeLoc only if time_index + 1 == offset_index "
                           "(linear normal form of the guarding condition); any other placement is a bad-ABI error")
    fid = "llir::intrinsic::IntrinsicAbiHelper::<'_>::find_and_remove_jump"
    f = db.fn(fid)
    rep.fn(f)
    paths = [p_ for p_ in SY.fn_paths(db, fid) if p_[2] is None]
    terms = SY.fn_paths.last_atom_terms
    seen = {}
    for conds, events, fl, st in paths:
        ret = [e[2] for e in events if e[0] == "set" and e[1] == "<ret>"]
        if not ret:
            continue
        txt = SY.render(ret[0])
        m = re.search(r"JumpArgOrder::(LocTime|TimeLoc|Loc)\b", txt)
        if not m or not txt.startswith("Result::Ok"):
            continue
        order = m.group(1)
        t_idx, o_idx = st.env.get("time_index"), st.env.get("offset_index")
        rel = None
        for k, v, _ in conds:
            tm = terms.get(k)
            if v is True and tm is not None and tm[0] == "bin" and tm[1] == "==":
                l, r = SY.linear_form(tm[2]), SY.linear_form(tm[3])
                d = dict(l)
                for kk, vv in r.items():
                    d[kk] = d.get(kk, 0) - vv
                d = dict((kk, vv) for kk, vv in d.items() if vv != 0)
                rel = d
        seen.setdefault(order, []).append((rel, [(k, v) for k, v, _ in conds]))
    def is_rel(rel, sign):
        # time - offset == sign   (up to multiplying by -1), atoms are whatever the two index terms render to
        if not rel or 1 not in rel or len(rel) != 3:
            return False
        names = [k for k in rel if k != 1]
        tn = [n for n in names if "JumpTime" in n]
        on = [n for n in names if "JumpOffset" in n]
        if len(tn) != 1 or len(on) != 1:
            return False
        a, b, c = rel[tn[0]], rel[on[0]], rel[1]
        return (a, b, c) == (1, -1, -sign) or (a, b, c) == (-1, 1, sign)
    ok_lt = bool(seen.get("LocTime")) and all(is_rel(r_, 1) for r_, _ in seen.get("LocTime", []))
    ok_tl = bool(seen.get("TimeLoc")) and all(is_rel(r_, -1) for r_, _ in seen.get("TimeLoc", []))
    rep.check(ok_lt, "R-JUMP-ADJ", "find_and_remove_jump|LocTime iff time == offset + 1", f.loc, "offset then time, adjacent",
              "LocTime is returned under %s: a signature with something between 'o' and 't' is accepted and the lowerer writes the time into another argument's slot" % [c for _, c in seen.get("LocTime", [])][:1])
    rep.check(ok_tl, "R-JUMP-ADJ", "find_and_remove_jump|TimeLoc iff time + 1 == offset", f.loc, "time then offset, adjacent",
              "TimeLoc is returned under %s" % [c for _, c in seen.get("TimeLoc", [])][:1])


def run(db, tier):
    rep = Report("C12", tier, EXPLANATION, RULE)
    rep.rule("R-CODEC-ARMS", "encoder and decoder list the same ArgEncoding patterns with inverse primitives")
    rep.rule("R-DEC-LEN", "a decoder arm reserves exactly the bytes its primitive reads (decrease_len(n) with n == width)")
    rep.rule("R-MASK", "both sides advance the register mask exactly for encodings that contribute to it")
    rep.rule("R-PADDING", "padding consumes no argument, has a default, and is the only encoding with a default")
    rep.rule("R-LOSSY", "integer arguments narrower than 32 bits are range-checked before being written")
    rep.rule("R-VALIDATE", "InstrAbi values are only built by from_encodings, which calls validate")
    rep.rule("R-NOREG", "a register argument in a language without registers is an error")
    fe, me, te = table(db, ENC)
    fd, md, td = table(db, DEC)
    rep.fn(fe)
    rep.fn(fd)
    rep.floor("encoder ArgEncoding patterns", len(te), 11)
    rep.floor("decoder ArgEncoding patterns", len(td), 11)
    for s in sorted(set(te) | set(td), key=str):
        key = "pattern|%s" % s
        a, b = te.get(s), td.get(s)
        if a is None or b is None:
            # a pattern present on one side only is fine iff the other side covers it with a diverging / earlier arm
            have, miss, f = ("encoder", "decoder", fe) if b is None else ("decoder", "encoder", fd)
            arm = a or b
            if arm["b"].get("never"):
                rep.ok("R-CODEC-ARMS", key, "%s:%d" % (f.file, arm["ln"]), "diverging arm on the %s side only (impossible case)" % have)
            elif s == AE + "::Integer{arg0: true}":
                rep.ok("R-CODEC-ARMS", key, "%s:%d" % (f.file, arm["ln"]), "arg0 is taken from the instruction header on the decoder side and consumed before the loop on the encoder side")
            else:
                rep.bad("R-CODEC-ARMS", key, "%s:%d" % (f.file, arm["ln"]), "encoding pattern %s handled by the %s only" % (s, have))
            continue
        loc = "%s:%d / %s:%d" % (fe.file, a["ln"], fd.file, b["ln"])
        na, nb = bool(a["b"].get("never")), bool(b["b"].get("never"))
        if na or nb:
            rep.check(na == nb or s in (AE + "::Padding", AE + "::Integer{arg0: true}"), "R-CODEC-ARMS", key, loc,
                      "diverging on both sides / handled before the match",
                      "pattern %s diverges on one side only (encoder never=%s, decoder never=%s)" % (s, na, nb))
            continue
        w = prims(a["b"], "write")
        r = prims(b["b"], "read")
        if s == AE + "::String":
            rep.ok("R-CODEC-ARMS", key, loc, "string path (layer order is checked under C15); length prefix write_%s / read_%s" % (w, r))
            continue
        if s == AE + "::Float":
            ok = w == ["f32"] and r == ["u32"] and "core::f32::<impl f32>::from_bits" in arms.calls_in(b["b"])
            rep.check(ok, "R-CODEC-ARMS", key, loc, "write_f32 <-> f32::from_bits(read_u32)", "float codec mismatch: writes %s, reads %s" % (w, r))
        else:
            rep.check(len(w) == 1 and w == r, "R-CODEC-ARMS", key, loc, "write_%s <-> read_%s" % ("".join(w), "".join(r)),
                      "encoder writes %s but decoder reads %s" % (w, r))
        # decoder reserves exactly the width
        lens = []
        for n in hir_walk(b["b"]):
            if n.get("k") in ("Call", "MCall") and (n.get("f") or "").endswith("decrease_len"):
                for x in n["a"]:
                    if x.get("k") == "Lit":
                        lens.append(int(x["v"]))
        want = [WIDTH[x] for x in r]
        rep.check(lens == want, "R-DEC-LEN", key, "%s:%d" % (fd.file, b["ln"]), "decrease_len(%s) before read_%s" % (lens, r),
                  "decoder reserves %s bytes but reads %s (%s bytes): read past the checked length" % (lens, r, want))
    # padding arm in the decoder (handled before the match): sizes 1 and 4 with read_u8 / read_u32
    pad = None
    for n in hir_walk(fd.hir):
        if n.get("k") == "If" and n["c"].get("k") == "LetE":
            sg = arms.pat_sig(n["c"]["p"])
            if sg and sg[0] and sg[0].startswith(AE + "::Padding"):
                pad = n
    rep.check(pad is not None, "R-PADDING", "decoder|padding-before-match", fd.loc, "decoder handles Padding before the argument match",
              "decoder has no `if let Padding` before the match")
    if pad is not None:
        pr = prims(pad["t"], "read")
        cont = any(x.get("k") == "Continue" for x in hir_walk(pad["t"]))
        rep.check(sorted(pr) == ["u32", "u8"] and cont, "R-PADDING", "decoder|padding-reads", "%s:%d" % (fd.file, pad["ln"]),
                  "padding reads u8/u32 and continues", "padding branch reads %s, continue=%s" % (pr, cont))
    # encoder: padding `continue`s before args_iter.next()
    epad = None
    for n in hir_walk(fe.hir):
        if n.get("k") == "If" and n["c"].get("k") == "LetE":
            sg = arms.pat_sig(n["c"]["p"])
            if sg and sg[0] and sg[0].startswith(AE + "::Padding"):
                epad = n
    ok = False
    if epad is not None:
        cont = any(x.get("k") == "Continue" for x in hir_walk(epad["t"]))
        consumes = any((x.get("f") or "").endswith("Iterator::next") for x in hir_walk(epad["t"]) if x.get("k") in ("Call", "MCall"))
        pw = prims(epad["t"], "write")
        ok = cont and not consumes and sorted(pw) == ["u32", "u8"]
    rep.check(ok, "R-PADDING", "encoder|padding-consumes-no-arg", fe.loc if epad is None else "%s:%d" % (fe.file, epad["ln"]),
              "encoder writes padding zeros and continues without taking an argument",
              "encoder's padding branch is missing, consumes an argument, or does not continue")
    # abi_to_signature: default exactly for Padding
    fs = db.fn("llir::abi::abi_to_signature")
    rep.fn(fs)
    cl = [c for c in db.children.get(fs.id, [])]
    found = False
    for n in hir_walk(fs.hir):
        if n.get("k") == "Match" and "st" in n and db.types[n["st"]].replace("&", "") == AE:
            found = True
            for arm in n["arms"]:
                sig = arms.pat_sig(arm["p"])
                has_default = None
                for x in hir_walk(arm["b"]):
                    if x.get("k") == "Struct":
                        for name, e in x["fs"]:
                            if name == "default":
                                a = arms.abstract(e)
                                has_default = not (a[0] == "path" and a[1] == "core::option::Option::None")
                is_pad = all(s and s.startswith(AE + "::Padding") for s in sig)
                rep.check(has_default == is_pad, "R-PADDING", "abi_to_signature|%s" % "|".join(str(s) for s in sig), "%s:%d" % (fs.file, arm["ln"]),
                          "default=%s" % has_default, "signature parameter for %s has default=%s (only padding may be omitted by callers)" % (sig, has_default))
    rep.check(found, "R-PADDING", "abi_to_signature|match", fs.loc, "match on ArgEncoding found", "abi_to_signature no longer matches on ArgEncoding")

    # ---- R-MASK
    for f, shift in ((fe, "Shl"), (fd, "Shr")):
        calls = set(t.get("f") for _, t in f.calls())
        for c in (AE + "::contributes_to_param_mask", AE + "::is_always_immediate"):
            rep.check(c in calls, "R-MASK", "%s|%s" % (f.id, c.rsplit("::", 1)[-1]), f.loc, "calls %s" % c.rsplit("::", 1)[-1],
                      "%s no longer consults %s" % (f.id, c))
        n = 0
        for b in f.blocks:
            for s in b["s"]:
                if s["r"] == "binop" and s["op"] == shift and isinstance(s["b"], dict) and s["b"].get("iv") == 1:
                    n += 1
        rep.check(n == 1, "R-MASK", "%s|shift-by-one" % f.id, f.loc, "exactly one `%s 1` of the mask per argument" % shift,
                  "%d mask shifts by one in %s (expected exactly 1)" % (n, f.id))
    # the shift is executed exactly when the encoding contributes to the mask (whatever is_always_immediate says):
    # every path from the true edge of `contributes_to_param_mask()` to the next iteration passes the shift, and the false edge never does
    for f, shift in ((fe, "Shl"), (fd, "Shr")):
        sblocks = [bi for bi, b in enumerate(f.blocks) for s_ in b["s"] if s_["r"] == "binop" and s_["op"] == shift and isinstance(s_["b"], dict) and s_["b"].get("iv") == 1]
        ccall = [(bi, t) for bi, t in f.calls() if t.get("f") == AE + "::contributes_to_param_mask"]
        okm = False
        whym = "no branch on contributes_to_param_mask() found"
        if len(sblocks) == 1 and len(ccall) == 1:
            sb = sblocks[0]
            hdr = flow.innermost_header(f, sb)
            for swb, neg in flow.switch_on_pol(f, place_local(ccall[0][1]["d"])):
                t = f.blocks[swb]["t"]
                if t.get("v") != [0] or len(t["t"]) != 2:
                    continue
                f_edge, t_edge = (t["t"][1], t["t"][0]) if neg else (t["t"][0], t["t"][1])
                errs = flow.error_exit_blocks(f)
                skip = hdr is not None and hdr in f.reachable_from(t_edge, avoid={sb} | errs)
                rets = [bi for bi, b in enumerate(f.blocks) if b["t"]["k"] == "ret"]
                skip = skip or any(r_ in f.reachable_from(t_edge, avoid={sb} | errs | ({hdr} if hdr is not None else set())) for r_ in rets)
                false_hits = sb in f.reachable_from(f_edge, avoid={hdr} if hdr is not None else set()) or sb == f_edge
                okm = not skip and not false_hits
                whym = ("a contributing argument can reach the next argument without the mask being shifted (e.g. only shifted when it is not an "
                        "always-immediate): all later mask bits are misaligned" if skip else
                        "the mask is also shifted for an encoding that does not contribute to it") if not okm else ""
        rep.check(okm, "R-MASK", "%s|shift iff contributes" % f.id, f.loc, "mask %s 1 on every path of a contributing argument and on no other" % shift, whym)
    fcm = db.fn(AE + "::contributes_to_param_mask")
    rep.fn(fcm)
    sg = []
    for n in hir_walk(fcm.hir):
        if n.get("k") == "Match":
            for arm in n["arms"]:
                sg += [s for s in arms.pat_sig(arm["p"]) if s]
    rep.check(any(s.startswith(AE + "::Padding") for s in sg), "R-MASK", "contributes_to_param_mask|padding", fcm.loc,
              "Padding is the encoding that does not contribute to the mask", "contributes_to_param_mask no longer singles out Padding: %s" % sg)

    # ---- R-LOSSY in encode_args
    defs = lossy.defs_of(fe)
    k = 0
    for bi, si, s, a, c in lossy.narrowing_casts(db, fe):
        sinks = lossy.forward_sinks(db, fe, place_local(s["d"]), bi)
        if not sinks:
            continue
        k += 1
        key = "encode_args|%s->%s|%d" % (a, c, k)
        dis = lossy.discharge(db, fe, bi, si, s, defs)
        big = lossy.BITS[c] >= 32 and lossy.BITS[a] == 64
        ok = dis is not None or big or "difficulty" in " ".join(x[1] for x in sinks)
        rep.check(ok, "R-LOSSY", key, "%s:%d" % (fe.file, s["ln"]),
                  "narrowing %s->%s: %s" % (a, c, dis[1] if dis else ("length written to a 32-bit field" if big else "difficulty mask (<= 8 bits, see C03 audit table)")),
                  "unchecked narrowing %s -> %s of an argument value on its way into the blob" % (a, c))
    w_small = [t for _, t in fe.calls() if re.match(r"^io::BinWrite::write_(i8|u8|i16|u16)$", t.get("f", ""))]
    rep.floor("8/16-bit writes in encode_args", len(w_small), 4)
    d = flow.Defs(fe)
    for i, t in enumerate(w_small):
        srcs = set()
        l = op_local(t["a"][1])
        if l is not None:
            srcs = d.sources(l)
        elif "c" in t["a"][1]:
            srcs = {("const", t["a"][1]["c"])}
        checked = any(s[0] == "call" and ("fit_int_arg" in s[1] or "try_from" in s[1] or "try_into" in s[1]) for s in srcs) or any(s[0] == "const" for s in srcs) and not any(s[0] == "call" for s in srcs)
        rep.check(checked, "R-LOSSY", "encode_args|%s|%d" % (t["f"].rsplit("::", 1)[-1], i + 1), "%s:%d" % (fe.file, t["ln"]),
                  "value comes from a checked conversion / constant", "%s of a value that did not pass a checked conversion" % t["f"])

    # the same rule over the closures of encode_args and the helpers it calls in llir::lower (the reinterpreting closures
    # `|x| x as i16` and fit_int_arg live there); shared implementation with C03
    from props import c03
    tbl = c03.load_table()
    helpers = set()
    for g in [fe] + list(db.children.get(fe.id, [])):
        for _, t in g.calls():
            c = t.get("fr") or t.get("f") or ""
            c0 = t.get("f") or ""
            for cand in (c, c0):
                if cand.startswith("llir::lower::") and cand in db.fns and cand != fe.id:
                    helpers.add(cand)
    scope = list(db.children.get(fe.id, []))
    for h in sorted(helpers):
        scope.append(db.fns[h])
        scope.extend(db.children.get(h, []))
    n_aux = 0
    for g in scope:
        nc, _ = c03.lossy_in_fn(db, rep, g, tbl, set())
        n_aux += nc
    rep.extra["casts_in_encode_args_closures_and_helpers"] = n_aux
    rep.floor("functions in the encode_args closure/helper scope", len(scope), 5)

    rule_jump_adjacent(db, rep)
    from props import c09 as _c09
    _c09.rule_param_pair(db, rep)
    # ---- R-VALIDATE: nothing may follow a string that is read to the end of the blob
    from rules import symeval as SY
    from facts import hir_walk as _hw
    SY.set_aliases([])
    fv = db.fn("llir::abi::validate")
    rep.fn(fv)
    vpaths = SY.fn_paths(db, fv.id, error_paths=True)
    vterms = SY.fn_paths.last_atom_terms
    OK_ITER = ("skip(rev(iter(encodings)), 1)", "take(iter(encodings), (len(encodings) - 1))", "rev(skip(rev(iter(encodings)), 1))",
               "iter(index(encodings, range::RangeTo{end: (len(encodings) - 1)}))")
    hits = []
    for key, tm in vterms.items():
        if tm[0] != "app" or not tm[2]:
            continue
        clos = [a for a in tm[2] if isinstance(a, tuple) and a and a[0] == "closure"]
        if not clos or not any("ToBlobEnd" in str(x.get("p", "")) for x in _hw(clos[0][2]["b"])) and "ToBlobEnd" not in str(clos[0][2]):
            continue
        hits.append((SY.short(tm[1]).split("::")[-1], SY.render(tm[2][0]), key))
    good = [h for h in hits if h[0] == "any" and h[1] in OK_ITER]
    err_on_it = any(fl == "error" and any(k == g[2] and v is True for k, v, _ in conds) for g in good for conds, ev_, fl, st in vpaths)
    rep.check(bool(good) and err_on_it, "R-VALIDATE", "validate|read-to-end string only last", fv.loc,
              "every encoding except the last is tested (%s) and a hit is an error" % (good[0][1] if good else ""),
              "validate does not reject a `bs=` (read to end of blob) string in EVERY position but the last (tests found: %s): with two such strings the decoder gives "
              "the first one all remaining bytes and the second decodes as empty" % [(h[0], h[1]) for h in hits])
    # block size of a `bs=` string is a divisor in the encoder (finding F28): zero must be refused where the signature is parsed
    sa = db.fn("llir::abi::string_from_attrs")
    rep.fn(sa)
    zero_test = False
    for n_ in _hw(sa.hir):
        if n_.get("k") == "Binary" and n_.get("op") in ("==", "<", "<=", "!=", ">"):
            sides = [n_["l"], n_["r"]]
            lit0 = any(x.get("k") == "Lit" and re.match(r"^[01](_?u\d+)?$", x.get("v", "")) for x in sides)
            on_bs = any(y.get("k") == "Path" and y.get("p") in ("bs", "user_bs") for x in sides for y in _hw(x))
            if lit0 and on_bs:
                zero_test = True
    rep.check(zero_test, "R-VALIDATE", "string_from_attrs|bs is not zero", sa.loc, "the block size is compared with zero when the signature is parsed",
              "string_from_attrs no longer tests `bs` against zero: `z(bs=0)` reaches `len % block_size` in the encoder (remainder by zero panic)")
    from props import c15
    rep.absorb(c15.run(db, tier), rules=("R-LAYER-ORDER", "R-FIT", "R-NOREPLACE"), why="string arguments are part of the argument codec")

    # ---- R-NOREG
    calls = [t.get("f") for _, t in fe.calls()]
    has = "llir::LanguageHooks::has_registers" in calls
    rep.check(has, "R-NOREG", "encode_args|has_registers", fe.loc, "encode_args tests hooks.has_registers()", "encode_args no longer tests has_registers()")

    # ---- R-VALIDATE
    builders = []
    for f in db.fns.values():
        if f.gen:
            continue
        for b in f.blocks:
            for s in b["s"]:
                if s["r"] == "agg" and s.get("adt") == "llir::abi::InstrAbi":
                    builders.append((f, s["ln"]))
    rep.floor("InstrAbi constructor sites", len(builders), 1)
    for f, ln in builders:
        root = f.parent or f.id
        ok = root == "llir::abi::InstrAbi::from_encodings" or root == "<llir::abi::InstrAbi as core::clone::Clone>::clone"
        rep.check(ok, "R-VALIDATE", "construct|%s" % f.id, "%s:%d" % (f.file, ln), "constructed in from_encodings (or the derived Clone of an existing value)",
                  "InstrAbi constructed outside from_encodings (bypasses validate)")
    ffe = db.fn("llir::abi::InstrAbi::from_encodings")
    rep.fn(ffe)
    rep.check("llir::abi::validate" in [t.get("f") for _, t in ffe.calls()], "R-VALIDATE", "from_encodings|validate", ffe.loc,
              "from_encodings calls validate", "from_encodings does not call validate")
    # ---------------- signature attributes never change width or signedness
    rep.rule("R-SIG-ATTR", "in a signature string the letter alone fixes an integer's width and signedness; attributes (hex, imm, enum, arg0) "
                           "only touch their own field")
    ia = db.fn("llir::abi::int_from_attrs")
    rep.fn(ia)
    n_cl = 0
    for c in db.children.get(ia.id, []):
        names = dict((nm, pl) for nm, pl in c.mir.get("names", []) if isinstance(pl, dict))
        fmt_pl = names.get("format")
        size_pl = names.get("size")
        if fmt_pl is None:
            continue
        n_cl += 1
        rep.fn(c)

        def rooted(dst, pl):
            return isinstance(dst, dict) and dst.get("l") == pl["l"] and dst.get("p", [])[:len(pl["p"])] == pl["p"]
        bad_w = []
        n_w = 0
        for b in c.blocks:
            for st in b["s"]:
                dst = st.get("d")
                if rooted(dst, fmt_pl):
                    n_w += 1
                    rest = dst["p"][len(fmt_pl["p"]):]
                    if not (len(rest) == 1 and rest[0][0] == "f" and rest[0][1] == "radix"):
                        bad_w.append((st["ln"], "format" + "".join("." + str(x[1]) for x in rest)))
                if size_pl is not None and rooted(dst, size_pl):
                    bad_w.append((st["ln"], "size"))
            t = b["t"]
            if t["k"] == "call":
                for a in t["a"]:
                    pass
        rep.check(not bad_w, "R-SIG-ATTR", "int_from_attrs|attribute writes", c.loc,
                  "%d write(s) into the captured format, all to .radix (display only)" % n_w,
                  "an attribute overwrites %s (line %s): a display attribute such as `hex` changes the width/signedness used to encode and decode the value"
                  % (", ".join(x[1] for x in bad_w), ", ".join(str(x[0]) for x in bad_w)))
        # the encoding that is returned carries exactly the captured size / format
        okagg = False
        dcl = flow.Defs(c)
        for b in c.blocks:
            for st in b["s"]:
                if st["r"] == "agg" and st.get("adt") == "llir::abi::ArgEncoding::Integer":
                    ops = dict(zip(st["fn"], st["ops"]))
                    def from_capture(o, pl):
                        p_ = op_place(o)
                        if p_ is None:
                            return False
                        cp = flow.canon_place(c, p_, dcl)
                        return cp[0] in ("param", "local") and cp[1] == pl["l"] and list(cp[2])[:1] in ([("f", pl["p"][0][1])], [["f", pl["p"][0][1]]]) or \
                            any(x[0] == "field" and str(x[2]) == pl["p"][0][1] for x in dcl._op_sources(o, 0, set(), True))
                    okagg = from_capture(ops["format"], fmt_pl) and (size_pl is None or from_capture(ops["size"], size_pl))
        rep.check(okagg, "R-SIG-ATTR", "int_from_attrs|result uses the letter's size and format", c.loc, "ArgEncoding::Integer { size, format } come from the format letter",
                  "the returned encoding does not carry the size/format selected by the format letter")
    rep.floor("attribute closures of int_from_attrs", n_cl, 1)
    # the letter table itself: width and signedness per letter (sibling: the documented letters)
    LETTERS = {"S": (4, "SIGNED"), "s": (2, "SIGNED"), "c": (1, "SIGNED"), "U": (4, "UNSIGNED"), "u": (2, "UNSIGNED"), "b": (1, "UNSIGNED"),
               "n": (4, "SIGNED"), "N": (4, "SIGNED"), "E": (4, "SIGNED"), "C": (4, "HEX")}
    m = arms.first_match(ia, db)
    got = {}
    for arm in (m["arms"] if m else []):
        b_ = arms.unwrap_block(arm["b"])
        for sg in arms.pat_sig(arm["p"]):
            if sg and b_.get("k") == "Tup" and len(b_.get("es", [])) >= 2:
                e0, e1 = b_["es"][0], b_["es"][1]
                got[sg.strip("'")] = (int(str(e0.get("v", "0")).rstrip("u8").rstrip("_") or 0) if e0.get("k") == "Lit" else None,
                                      (e1.get("p") or "").rsplit("::", 1)[-1])
    for ch, want in sorted(LETTERS.items()):
        rep.check(got.get(ch) == want, "R-SIG-ATTR", "letter|" + ch, ia.loc, "%s -> %s" % (ch, got.get(ch)),
                  "signature letter '%s' means %s bytes %s, found %s" % (ch, want[0], want[1], got.get(ch)))

    # ---------------- arity is the number of non-padding parameters
    rep.rule("R-ARITY-DEF", "the number of arguments a call may pass equals the number of arguments encode_args consumes: parameters without a "
                            "default (padding is the only defaulted encoding, R-PADDING)")
    mn = db.fn("context::defs::Signature::min_args")
    mx = db.fn("context::defs::Signature::max_args")
    rep.fn(mn)
    rep.fn(mx)

    def counts_non_default(fn_):
        calls = set(t.get("f", "") for _, t in fn_.calls())
        if any(x.endswith("Signature::min_args") for x in calls) and fn_ is not mn:
            return True
        def mentions_default(x):
            if isinstance(x, list):
                if len(x) >= 2 and x[0] == "f" and x[1] == "default":
                    return True
                return any(mentions_default(y) for y in x)
            if isinstance(x, dict):
                return any(mentions_default(y) for y in x.values())
            return False
        for c in db.children.get(fn_.id, []):
            if any(mentions_default(st) for b in c.blocks for st in b["s"]) or any(mentions_default(t["a"]) for _, t in c.calls()):
                return True
        return False
    for fn_, nm in ((mn, "min_args"), (mx, "max_args")):
        uses_len = any(t.get("f", "").endswith("::len") for _, t in fn_.calls())
        rep.check(counts_non_default(fn_) and not uses_len, "R-ARITY-DEF", "Signature::" + nm, fn_.loc, "counts parameters without a default",
                  "%s is not the count of parameters without a default (%s): calls may pass arguments that encode_args never consumes, so later arguments land in the wrong field or are dropped"
                  % (nm, "uses params.len()" if uses_len else "no reference to `default`"))
    # ---------------- intrinsic argument placement: indices count padding on both sides
    rep.rule("R-INTRINSIC-INDEX", "the argument indices of IntrinsicInstrAbiParts count padding (the decompiler indexes the decoded argument "
                                  "list, which contains padding); the lowerer must therefore size its list with padding included and drop "
                                  "the padding slots afterwards")
    fa = db.fn("llir::intrinsic::IntrinsicInstrAbiParts::from_abi")
    rep.fn(fa)
    dfa = flow.Defs(fa)
    rm = [bi for bi, t in fa.calls() if t.get("f", "").endswith("find_and_remove_padding")]
    ok_n = False
    for b in fa.blocks:
        for st in b["s"]:
            if st["r"] == "agg" and (st.get("adt") or "").endswith("IntrinsicInstrAbiParts"):
                o = dict(zip(st["fn"], st["ops"])).get("num_instr_args")
                srcs = dfa._op_sources(o, 0, set(), True) if o is not None else set()
                lens = [x[2] for x in srcs if x[0] == "call" and x[1].endswith("::len")]
                # the len() that feeds num_instr_args is taken BEFORE padding is removed
                ok_n = bool(lens) and bool(rm) and all(not any(lb in fa.reachable_from(r) for r in rm) for lb in lens)
    rep.check(ok_n, "R-INTRINSIC-INDEX", "from_abi|num_instr_args counts padding", fa.loc, "num_instr_args = number of encodings before padding is removed",
              "num_instr_args is computed after padding was removed while the stored indices still count padding: a signature with padding "
              "before an argument (`S_SS`) indexes past the end of the lowerer's argument list")
    iv = db.fn("llir::lower::intrinsic::IntrinsicBuilder::<'_>::into_vec")
    rep.fn(iv)
    def _mentions_field(x, name):
        if isinstance(x, list):
            if len(x) >= 2 and x[0] == "f" and x[1] == name:
                return True
            return any(_mentions_field(y, name) for y in x)
        if isinstance(x, dict):
            return any(_mentions_field(y, name) for y in x.values())
        return False
    uses_padding = any(_mentions_field(st, "padding") for b in iv.blocks for st in b["s"])
    rep.check(uses_padding, "R-INTRINSIC-INDEX", "into_vec|drops padding slots", iv.loc, "into_vec consults abi_parts.padding", "into_vec ignores which indices are padding")
    return rep
