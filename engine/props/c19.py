"""C19 Output is a deterministic function of the inputs  (R-HASH + who-may-call)."""
import re
from common import Report
from rules import hashorder

EXPLANATION = (
    "Static rule R-HASH over the type-checked `truth` lib (MIR): every call that starts an iteration over a "
    "std HashMap/HashSet (the only run-to-run varying state of a single-threaded tool: RandomState seeds) is "
    "followed through iterator adapters, for-loops and functions that return the iterator, and its consumer is "
    "classified order-insensitive (collect into a map/set, any/all/count/sum/min/max, loop bodies without "
    "order-dependent effects, collect-then-sort) or order-sensitive (anything else: diagnostics, pushes, ids, "
    "collect_with_recovery, min_by_key, early return).  A second who-may-call rule lists every call into "
    "std::time / std::env / std::thread / std::process::id / RandomState / walkdir / read_dir and pointer-to-integer "
    "casts and requires each to be one of the audited sites.  Decides the code-shape condition 'no observable "
    "output depends on hash-table order or on ambient process state'; it does not execute truth.")

RULE = ("instance = one hash-table iteration source (function, method, ordinal) or one ambient-state call site; "
        "non-trivial = every instance (each needs its consumer classified); distinct by key")

# ambient-state call sites audited on the pinned tree: (function, callee) -> reason
AMBIENT_OK = {
    ("error::ErrorReported::new", "std::backtrace::Backtrace::capture"):
        "backtrace of an internal error is only printed under RUST_BACKTRACE; not part of normal diagnostics",
    ("cli_def::wrap_exit_code", "std::backtrace::Backtrace::status"): "same (debug aid)",
    ("mapfile::Mapfile::decomp_map_file_from_env", "std::env::var_os"): "TRUTH_MAP_PATH is a documented input of the command",
    ("mapfile::Mapfile::decomp_map_file_from_env", "std::env::split_paths"): "splits TRUTH_MAP_PATH (documented input)",
    ("cli_def::main", "std::env::args"): "command line = the input",
    ("cli_def::cli::extract_outdir", "std::env::current_dir"): "only to print a relative path in a message; cwd is part of the command's environment",
    ("io::nice_or_bust", "std::env::current_dir"): "display form of paths relative to cwd (input of the command)",
    ("<llir::lower::Lowerer<'_> as core::ops::drop::Drop>::drop", "std::thread::functions::panicking"): "panic-bomb guard; no output",
    ("setup_for_test_harness", "std::env::set_var"): "test harness hook (never called by the binaries)",
    ("setup_for_test_harness", "std::env::remove_var"): "test harness hook",
    ("env::is_test_mode", "std::env::var"): "_TRUTH_DEBUG__TEST: test-mode switch (documented input)",
}
AMBIENT = re.compile(r"^(std::time::|std::env::|std::thread::|std::process::id|std::hash::random|rand::|walkdir::|std::fs::read_dir|std::backtrace|std::collections::hash::map::RandomState)")


def run(db, tier):
    rep = Report("C19", tier, EXPLANATION, RULE)
    rep.rule("R-HASH", "the consumer of every iteration over a HashMap/HashSet is order-insensitive")
    rep.rule("R-AMBIENT", "ambient process state (time, env, threads, pids, fs listing order, addresses) is read only at audited sites")
    rep.rule("R-HASH-DYN", "no hash table is coerced to a trait object / formatted (Debug output would expose table order)")
    for f in db.fns.values():
        if not f.gen:
            rep.fn(f)
    sites = hashorder.find_sites(db, rep)
    for s in sites:
        rep.check(s.verdict == "insensitive", "R-HASH", s.key, s.loc,
                  detail_ok="%s over %s: %s" % (s.term.get("f"), (s.term.get("ga") or ["?"])[0][:90], s.reason),
                  detail_bad="%s over %s is order-sensitive: %s" % (s.term.get("f"), (s.term.get("ga") or ["?"])[0][:90], s.reason))
    rep.floor("hash iteration sources", len([s for s in sites if s.kind == "source"]), 1)
    # dyn / debug
    seen = {}
    for f, ln, frm, to in hashorder.dyn_debug_sites(db):
        k = "%s|%s" % (f.id, frm[:60])
        seen[k] = seen.get(k, 0) + 1
        # derived Debug impls print only in internal-bug panics; still order-exposing -> must be audited
        ok = f.id.endswith("as core::fmt::Debug>::fmt")
        rep.check(ok, "R-HASH-DYN", "%s|%d" % (k, seen[k]), "%s:%d" % (f.file, ln),
                  detail_ok="derived Debug impl (only reachable from {:?} in internal panics / test output)",
                  detail_bad="hash table %s formatted / coerced to %s" % (frm[:80], to[:60]))
    # ambient
    n = {}
    cnt = 0
    for f in db.fns.values():
        if f.gen:
            continue
        for bb, t in f.calls():
            c = t.get("f", "")
            if AMBIENT.match(c):
                cnt += 1
                rid = re.sub(r"(::\{closure#\d+\})+$", "", f.id)     # closures are attributed to the containing function
                key = "%s|%s" % (rid, c)
                n[key] = n.get(key, 0) + 1
                reason = AMBIENT_OK.get((rid, c))
                rep.check(reason is not None and n[key] == 1, "R-AMBIENT", "%s|%d" % (key, n[key]), "%s:%d" % (f.file, t["ln"]),
                          detail_ok=reason or "", detail_bad="call of %s is not an audited ambient-state site" % c)
        for b in f.blocks:
            for s in b["s"]:
                if s["r"] == "cast" and "Expose" in s.get("ck", ""):
                    cnt += 1
                    rep.bad("R-AMBIENT", "%s|ptr-to-int" % f.id, "%s:%d" % (f.file, s["ln"]), "pointer exposed as integer (address-dependent value)")
    rep.floor("ambient-state call sites", cnt, 8)
    return rep
