"""C20 A name used in a script compiles to the id its target has in the output file (structural clauses)."""
import re
from common import Report
from facts import hir_walk, op_local, op_place, place_local, place_proj
from rules import flow, arms

EXPLANATION = (
    "Static rules.  R-RECURRENCE: the numbering routines that must agree (ANM writer `write_entry`, `all_sprite_ids`, "
    "`strip_unnecessary_sprite_ids`, `gather_script_ids`) all compute `id = explicit.unwrap_or(next); next = id + 1` "
    "with the same wrapping increment, where `next` is the very storage fed to unwrap_or; the symbolic sibling "
    "`gather_sprite_id_exprs` restarts `sequential_int_exprs` at an explicit id and `sequential_int_exprs` counts from "
    "0 with `+`.  R-NO-DEDUP: sprite definitions are collected in a Vec with one push per sprite on every path of the "
    "loop (a keyed map would silently merge same-named sprites of different entries before the duplicate check sees "
    "them).  R-DEFERRED: a redefinition of an enum const schedules an equality check (defer_equality_check in the "
    "`Some(old)` branch of the insert), the schedule is an order-preserving Vec that is only ever pushed to, every "
    "scheduled pair is compared and a difference is an emitted error, and evaluate_all_deferred runs the checks on "
    "every normal path.  R-LOOKUP: names that do not exist are errors (MSG table `no such script`, STD `no object "
    "named`), and the index written is the position in the same collection that is written (get_index_of / offsets "
    "map filled while writing).  Decides these code-shape conditions, not the numbers in a concrete output file.")
RULE = "instance = one numbering routine / collection discipline / lookup guard"

NUMBERING = [
    ("formats::anm::read_write::write_entry", True),
    ("formats::anm::all_sprite_ids", False),
    ("formats::anm::strip_unnecessary_sprite_ids", False),
    ("formats::anm::gather_script_ids", False),
]


def run(db, tier):
    rep = Report("C20", tier, EXPLANATION, RULE)
    for r, t in (("R-RECURRENCE", "all id numbering routines use the same recurrence id = explicit or next; next = id + 1"),
                 ("R-NO-DEDUP", "same-named definitions are all kept until the duplicate check has seen them"),
                 ("R-DEFERRED", "duplicate names with different values are reported"),
                 ("R-LOOKUP", "missing names are errors; indices come from the collection that is written")):
        rep.rule(r, t)

    # ---------------- R-RECURRENCE
    incs = {}
    for fid, in_closure in NUMBERING:
        f = db.fn(fid)
        rep.fn(f)
        cands = db.with_closures(f)
        found = None
        for g in cands:
            d = flow.Defs(g)
            for bi, t in g.calls():
                if t.get("f") != "core::option::Option::<T>::unwrap_or" or len(t["a"]) < 2:
                    continue
                # default operand: a copy of the `next` storage, possibly wrapped (e.g. `sp!(span => next)`)
                dl = op_local(t["a"][1])
                next_place = _copied_origins(db, g, d, dl)
                res = place_local(t["d"])
                # the increment: wrapping_add(res', 1) or Add(res', 1), stored back into next_place
                for bk, t2 in g.calls():
                    c2 = t2.get("f", "")
                    if c2.endswith("::wrapping_add") and len(t2["a"]) == 2 and t2["a"][1].get("iv") == 1:
                        srcs = d._op_sources(t2["a"][0], 0, set(), True)
                        if flow.has_call_source(srcs, "Option::<T>::unwrap_or"):
                            dest = flow.trace_to_origin(db, g, t2["d"] if isinstance(t2["d"], dict) else {"l": t2["d"], "p": []})
                            stored = _stored_to(db, g, d, place_local(t2["d"]), next_place) or (dest in next_place)
                            found = ("wrapping_add", stored, g, t)
                for b in g.blocks:
                    for s in b["s"]:
                        if s["r"] == "binop" and s["op"] in ("Add", "AddWithOverflow") and isinstance(s["b"], dict) and s["b"].get("iv") == 1:
                            srcs = d._op_sources(s["a"], 0, set(), True)
                            if flow.has_call_source(srcs, "Option::<T>::unwrap_or") and found is None:
                                found = ("plain +", _stored_to(db, g, d, place_local(s["d"]), next_place), g, t)
        if found is None:
            rep.bad("R-RECURRENCE", fid, f.loc, "no `id = explicit.unwrap_or(next); next = id + 1` recurrence found in %s" % fid)
            continue
        kind, stored, g, t = found
        incs[fid] = kind
        rep.check(stored, "R-RECURRENCE", fid, "%s:%d" % (g.file, t["ln"]),
                  "id = explicit.unwrap_or(next); next = id %s 1 (stored back into the same `next`)" % ("wrapping +" if kind == "wrapping_add" else "+"),
                  "the incremented id is not stored back into the `next` that feeds unwrap_or")
    kinds = set(incs.values())
    rep.check(len(kinds) == 1 and kinds == {"wrapping_add"}, "R-RECURRENCE", "siblings|same-increment", db.fn(NUMBERING[0][0]).loc,
              "all numbering routines increment with wrapping_add (as the const evaluator's `+` does)",
              "numbering routines disagree on the increment: %s" % incs)
    gs = db.fn("formats::anm::gather_sprite_id_exprs")
    rep.fn(gs)
    calls = [(bi, t) for bi, t in gs.calls() if t.get("f") == "formats::anm::sequential_int_exprs"]
    rep.check(len(calls) >= 2, "R-RECURRENCE", "gather_sprite_id_exprs|restart-at-explicit-id", gs.loc,
              "numbering starts at 0 and restarts at each explicit id (sequential_int_exprs called at both points)",
              "gather_sprite_id_exprs no longer restarts sequential_int_exprs at an explicit id")
    dg = flow.Defs(gs)
    restart_from_id = False
    for bi, t in calls:
        srcs = dg._op_sources(t["a"][0], 0, set(), True)
        if any(s[0] == "field" and s[2] == "id_expr" for s in srcs) or flow.has_call_source(srcs, "::cloned"):
            restart_from_id = True
    rep.check(restart_from_id, "R-RECURRENCE", "gather_sprite_id_exprs|restart-uses-id_expr", gs.loc, "the restart uses the sprite's own id expression",
              "the numbering restart does not use the explicit id expression")
    sq = db.fn("formats::anm::sequential_int_exprs")
    rep.fn(sq)
    from0 = any(s["r"] == "agg" and "RangeFrom" in (s.get("adt") or "") and any(isinstance(o, dict) and o.get("iv") == 0 for o in s["ops"])
                for b in sq.blocks for s in b["s"])
    rep.check(from0, "R-RECURRENCE", "sequential_int_exprs|counts-from-0", sq.loc, "offsets count from 0", "sequential_int_exprs no longer counts from 0")
    plus = False
    for c in db.children.get(sq.id, []):
        for b in c.blocks:
            for s in b["s"]:
                if s["r"] == "agg" and (s.get("adt") or "").endswith("ast::BinOpKind::Add"):
                    plus = True
    rep.check(plus, "R-RECURRENCE", "sequential_int_exprs|uses-plus", sq.loc, "`e + i`", "sequential_int_exprs does not build `e + i`")

    # ---------------- R-NO-DEDUP
    ret_ty = gs.local_ty(0)
    rep.check("alloc::vec::Vec<(pos::span::Sp<ident::ResIdent>" in ret_ty, "R-NO-DEDUP", "gather_sprite_id_exprs|returns-Vec", gs.loc,
              "sprite definitions are returned as a Vec (duplicates preserved)", "gather_sprite_id_exprs returns %s: same-named sprites would be merged before define_enum_const sees them" % ret_ty[:120])
    pushes = [(bi, t) for bi, t in gs.calls() if t.get("f", "").endswith("Vec::<T, A>::push") and "ResIdent" in " ".join(t.get("ga", []))]
    ok = False
    for pb, t in pushes:
        h = flow.innermost_header(gs, pb)
        if h is not None and flow.every_iteration_passes(gs, h, {pb}):
            ok = True
    rep.check(bool(pushes) and ok, "R-NO-DEDUP", "gather_sprite_id_exprs|push-per-sprite", gs.loc, "one push per sprite on every path of the loop",
              "a sprite can pass through the loop without being recorded")
    for fid in ("formats::anm::compile",):
        f = db.fn(fid)
        uses = any(t.get("f", "").endswith("define_enum_const") for g in db.with_closures(f) for _, t in g.calls())
        rep.check(uses, "R-NO-DEDUP", "%s|define_enum_const-per-definition" % fid, f.loc, "every collected sprite/script definition goes through define_enum_const",
                  "anm::compile no longer defines the collected names through define_enum_const")

    # ---------------- R-DEFERRED
    consts = db.adts.get("context::consts::Consts")
    fty = None
    for v in consts["variants"]:
        for fl in v["fields"]:
            if fl["n"] == "deferred_equality_checks":
                fty = db.types[fl["ty"]]
    rep.check(fty is not None and fty.startswith("alloc::vec::Vec<"), "R-DEFERRED", "Consts.deferred_equality_checks|is-Vec", "%s:%d" % (consts["file"], consts["line"]),
              "scheduled checks are kept in a Vec (no check can replace another)", "deferred_equality_checks is %s: a later check can overwrite an earlier one" % fty)
    de = db.fn("context::consts::Consts::defer_equality_check")
    rep.fn(de)
    ok, _ = flow.must_pass(de, ["Vec::<T, A>::push"])
    rep.check(ok, "R-DEFERRED", "defer_equality_check|always-pushes", de.loc, "every call schedules a check", "defer_equality_check does not always push the check")
    dec = db.fn("context::defs::<impl context::CompilerContext<'_>>::define_enum_const")
    rep.fn(dec)
    dd = flow.Defs(dec)
    guarded = False
    for bi, t in flow.calls_to(dec, "Consts::defer_equality_check"):
        # control dependent on the Some edge of the IndexMap::insert result
        for bj, t2 in dec.calls():
            if t2.get("f", "").endswith("IndexMap::<K, V, S>::insert"):
                for sb in flow.switch_on(dec, place_local(t2["d"]), dd) + _discr_switches(dec, dd, place_local(t2["d"])):
                    if sb in dec.dominators().get(bi, ()):
                        guarded = True
    rep.check(guarded, "R-DEFERRED", "define_enum_const|redefinition->defer", dec.loc, "a redefinition of a name within an enum schedules an equality check",
              "define_enum_const no longer schedules an equality check when insert() returns the old definition")
    # ambiguity is absorbing: once a name is known from another enum (Occupied entry of unique_enums) the only value written
    # to the entry is None.  If an occupied entry can be overwritten with Some(enum), a third definition of an ambiguous name
    # makes a bare use of it resolve silently to one of its different values instead of being reported.
    occ = None
    for m in hir_walk(dec.hir):
        if m.get("k") == "Match" and m.get("src") == "Normal":
            for a in m["arms"]:
                q = a["p"]
                while isinstance(q.get("p"), dict):
                    q = q["p"]
                if isinstance(q.get("p"), str) and q["p"].endswith("Entry::Occupied"):
                    occ = a
    if occ is None:
        from common import Broken as _B
        raise _B("R-DEFERRED: define_enum_const no longer distinguishes occupied / vacant entries of unique_enums")
    ins = [x for x in hir_walk(occ["b"]) if x.get("k") == "MCall" and x.get("m") == "insert"]
    none_arg = lambda x: bool(x.get("a")) and x["a"][0].get("k") == "Path" and (x["a"][0].get("p") or "").endswith("Option::None")
    rep.check(bool(ins) and all(none_arg(x) for x in ins), "R-DEFERRED", "define_enum_const|ambiguity is absorbing", "%s:%d" % (dec.file, occ["ln"]),
              "an entry that already exists is only ever overwritten with None (ambiguous)",
              "a name already known from another enum (or already ambiguous) can have its unique_enums entry overwritten with something other than None "
              "(line %s): after a further definition a bare use of the name silently picks one of its different values" % [x.get("ln") for x in ins if not none_arg(x)])
    dq = db.fn("context::consts::Consts::do_deferred_equality")
    rep.fn(dq)
    ne = [c for c in flow.comparisons(dq) if c["op"] in ("Ne", "Eq")]
    emits = any(t.get("f", "").endswith("::emit") for _, t in dq.calls())
    loop = any(t.get("f", "").endswith("Iterator::next") for _, t in dq.calls())
    rep.check(bool(ne) and emits and loop, "R-DEFERRED", "do_deferred_equality|compares-all-and-errors", dq.loc,
              "every scheduled pair is compared; a difference is an emitted error", "do_deferred_equality does not loop over all checks / compare / emit")
    ev = db.fn("context::consts::Consts::evaluate_all_deferred")
    rep.fn(ev)
    ok, _ = flow.must_pass(ev, ["Consts::do_deferred_equality"])
    rep.check(ok, "R-DEFERRED", "evaluate_all_deferred|runs-equality-checks", ev.loc, "the equality checks run on every normal path", "evaluate_all_deferred can return Ok without running do_deferred_equality")
    run_ = db.fn("passes::evaluate_const_vars::run")
    rep.fn(run_)
    ok, _ = flow.must_pass(run_, ["Consts::evaluate_all_deferred"])
    rep.check(ok, "R-DEFERRED", "evaluate_const_vars::run|calls-evaluate_all_deferred", run_.loc, "the pass runs evaluate_all_deferred", "evaluate_const_vars::run does not always call evaluate_all_deferred")

    # ---------------- R-LOOKUP
    wm = db.fn("formats::msg::write_msg")
    rep.fn(wm)
    ok = False
    for g in db.with_closures(wm):
        if any(t.get("f", "").endswith("::emit") for _, t in g.calls()) and g.closure:
            ok = ok or True
    gets = flow.calls_to(wm, "BTreeMap::<K, V, A>::get")
    oks = flow.calls_to(wm, "Option::<T>::ok_or_else")
    rep.check(bool(gets) and bool(oks) and ok, "R-LOOKUP", "write_msg|missing-script->error", wm.loc, "a table entry naming a missing script is an error",
              "write_msg no longer reports table entries that name a missing script")
    ins = flow.calls_to(wm, "BTreeMap::<K, V, A>::insert")
    rep.check(bool(ins), "R-LOOKUP", "write_msg|offsets-recorded-while-writing", wm.loc, "script offsets are recorded as the scripts are written",
              "write_msg no longer records each script's offset while writing it")
    wi = db.fn("formats::std::write_instance")
    rep.fn(wi)
    gi = flow.calls_to(wi, "IndexMap::<K, V, S>::get_index_of")
    emits = any(t.get("f", "").endswith("::emit") for _, t in wi.calls())
    rep.check(bool(gi) and emits, "R-LOOKUP", "write_instance|missing-object->error", wi.loc, "the object index is its position in the written object map; a missing name is an error",
              "write_instance does not look the object up with get_index_of / report missing names")
    # ---------------- R-TIMELINE-INDEX: index of each old-ECL timeline (symbolic evaluation of the numbering loop)
    from rules import symeval as SY
    rep.rule("R-TIMELINE-INDEX", "get_and_validate_timeline_indices gives a timeline its explicit number (only if it is not negative; a negative one is an "
                                 "error and yields no index) or else the current value of a counter that it then increments by one: automatic numbers "
                                 "are 0, 1, 2, .. in file order (linear normal form of the pushed value and of the counter update)")
    SY.set_aliases([])
    tf = db.fn("formats::ecl::ecl_06::get_and_validate_timeline_indices")
    rep.fn(tf)
    tps = [p_ for p_ in SY.fn_paths(db, tf.id, sinks=("timeline_indices",), effect_calls=("ErrorFlag::set",)) if p_[2] is None]
    loops = [e for p_ in tps[:1] for e in p_[1] if e[0] == "loop" and e[1] == "items"]
    ok_auto = ok_expl = ok_neg = False
    why = "the numbering loop over `items` was not found"
    if loops:
        why = ""
        NONE = "is_none(each(items).number)"
        NEG = "(each(items).number.Some.0 < 0)"
        for conds, events, fl in loops[0][2]:
            cd = dict((k, v) for k, v, _ in conds)
            if not any(k.startswith("match each(items) ") and v == "Script" for k, v in cd.items()):
                continue
            emits = [e for e in events if e[0] == "emit"]
            sets = dict((e[1], e[2]) for e in events if e[0] == "set")
            is_none, neg = cd.get(NONE), cd.get(NEG)
            if emits and is_none is True:
                lf = SY.linear_form(emits[0][1])
                upd = SY.linear_form(sets["next_auto_number"]) if "next_auto_number" in sets else None
                good = lf == {"next_auto_number": 1} and upd == {"next_auto_number": 1, 1: 1}
                ok_auto = good if not why else False
                if not good:
                    why += "automatic index is %s and the counter becomes %s; " % (SY.render(emits[0][1]), SY.render(sets.get("next_auto_number", ("lit", "unchanged"))))
            elif emits and is_none is False:
                good = SY.render(emits[0][1]) == "each(items).number.Some.0" and neg is False
                ok_expl = good if not why else False
                if not good:
                    why += "explicit index %s is taken under %s; " % (SY.render(emits[0][1]), sorted(cd.items()))
            elif emits:
                why += "an index is produced under %s; " % sorted(cd.items())
            elif not emits and is_none is False and neg is True:
                ok_neg = any(e[0] == "effect" and e[1] == "set" for e in events)
        if why:
            ok_auto = ok_auto and "automatic" not in why
            ok_expl = ok_expl and "explicit" not in why and "an index is produced" not in why
    rep.check(ok_auto, "R-TIMELINE-INDEX", "auto|counter value, then +1", tf.loc, "automatic index = counter; counter += 1", why or "no automatic-index path found")
    rep.check(ok_expl, "R-TIMELINE-INDEX", "explicit|number itself, non-negative only", tf.loc, "explicit index = the number, only when it is >= 0", why or "no explicit-index path found")
    rep.check(ok_neg, "R-TIMELINE-INDEX", "negative|error, no index", tf.loc, "a negative number is an error and produces no index", why or "the negative-number path does not set the error flag")
    # ---------------- R-WRITE-ORDER: things are written in the order in which they were numbered
    rep.rule("R-WRITE-ORDER", "the writer functions of src/formats emit scripts / sprites / subs / objects in the order of the in-memory tables "
                              "(the order the compile-time ids were taken from): no sort, reverse, swap or de-duplication happens between the table and the file")
    REORDER = re.compile(r"(<impl \[T\]>::(sort\w*|reverse|rotate_\w+|swap)|Iterator::rev$|DoubleEndedIterator::rev$|Vec::<T, A>::(swap_remove|dedup\w*|sort\w*)|"
                         r"indexmap::map::IndexMap::<K, V, S>::(sort\w*|reverse|swap_\w+|move_index|shift_\w+)|itertools::Itertools::(sorted\w*|unique\w*|rev))")
    n_w = 0
    for g in sorted(db.fns.values(), key=lambda g: (g.file, g.line)):
        rid = g.parent or g.id
        while rid in db.fns and db.fns[rid].parent:
            rid = db.fns[rid].parent
        if g.gen or not g.file.startswith("src/formats/") or not rid.rsplit("::", 1)[-1].startswith("write_"):
            continue
        n_w += 1
        rep.fn(g)
        for bi, t in g.calls():
            c = t.get("f", "")
            if REORDER.search(c) and not g.blocks[bi].get("cleanup"):
                rep.bad("R-WRITE-ORDER", "%s|%s" % (rid, c.rsplit("::", 1)[-1]), "%s:%d" % (g.file, t["ln"]),
                        "%s in %s changes the order in which table entries are written, but names were compiled to ids/indices in table order" % (c, rid.rsplit("::", 1)[-1]))
    rep.check(True, "R-WRITE-ORDER", "writers|no reordering call", "src/formats", "%d writer functions (with closures) scanned; none reorders what it writes" % n_w, "")
    rep.floor("writer functions of src/formats", n_w, 40)
    return rep


def _copied_origins(db, g, d, local, depth=0, seen=None):
    """origins (owner fn, canon place) of every place whose value is copied into `local` (through aggregates)"""
    seen = seen if seen is not None else set()
    out = set()
    if local is None or local in seen or depth > 6:
        return out
    seen.add(local)
    for bj, si, s, pj in d.stmts.get(local, []):
        if pj:
            continue
        ops = []
        if s["r"] == "use":
            ops = [s["o"]]
        elif s["r"] == "agg":
            ops = s["ops"]
        for o in ops:
            q = op_place(o)
            if q is None:
                continue
            if place_proj(q) or not d.stmts.get(place_local(q)):
                out.add(flow.trace_to_origin(db, g, q))
            out.add(flow.trace_to_origin(db, g, q))
            out |= _copied_origins(db, g, d, place_local(q), depth + 1, seen)
    if not out:
        out.add(flow.trace_to_origin(db, g, {"l": local, "p": []}))
    return out


def _stored_to(db, g, d, local, next_place):
    """is the value in `local` assigned (possibly via a copy) to one of the places in next_place"""
    if not next_place:
        return False
    work = [local]
    seen = set()
    while work:
        l = work.pop()
        if l in seen:
            continue
        seen.add(l)
        for b in g.blocks:
            for s in b["s"]:
                if s["r"] == "use" and op_local(s["o"]) == l:
                    dest = s["d"]
                    dp = dest if isinstance(dest, dict) else {"l": dest, "p": []}
                    if flow.trace_to_origin(db, g, dp) in next_place:
                        return True
                    if not place_proj(dest):
                        work.append(place_local(dest))
    # the call destination itself may be the place
    return flow.trace_to_origin(db, g, {"l": local, "p": []}) in next_place


def _discr_switches(f, d, local):
    out = []
    for bi, b in enumerate(f.blocks):
        t = b["t"]
        if t["k"] == "switch":
            l = op_local(t["d"])
            for bj, si, s, pj in d.stmts.get(l, []) if l is not None else []:
                if s["r"] == "discr" and place_local(s["p"]) == local:
                    out.append(bi)
    return out


def _stays_in_loop(f, bb, header):
    return header in f.reachable_from(bb)
