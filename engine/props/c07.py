"""C07 Recovering loops and conditionals while decompiling preserves behaviour (guard presence)."""
from common import Report
from facts import MissingAnchor
from facts import hir_walk, op_local, op_place, place_local, place_proj
from rules import arms, flow, visit

EXPLANATION = (
    "R-GUARD over passes::decompile_loop and passes::unused_labels (MIR dominance + HIR patterns).  should_decompile_loop: "
    "the Yes result is dominated by tests of jmp.time_arg (is_some), of the jump direction, of the destination still "
    "existing at this nesting level (binary_search) and of the interrupt-label range, each with an edge that cannot "
    "reach Yes.  _gather_cond_chain: every accepted chain (both Ok(CondChainInfo) sites) is dominated, within the same "
    "loop iteration, by the time_arg and direction tests of the *conditional* jump; the else/else-if path additionally "
    "by dest_refcount, the unconditional jump's time_arg / kind / direction tests and the common-end equality; "
    "destination indices are compared with the known end only by equality (never by an ordering).  JmpInfo::from_stmt "
    "returns None for statements with a difficulty label.  MakeBreakVisitor::visit_jump rewrites only `goto L` with "
    "time None whose loop id equals the current loop.  unused_labels removes a label only if its whole-function "
    "reference count (gotos and offsetof/timeof) is 0.  Decides guard presence, not behaviour preservation.")
RULE = "instance = one accept site x one required guard"

DL = "passes::decompile_loop::"
JI = "passes::decompile_loop::JmpInfo"


def field_is_some_guards(f, d, accept, field, header=None):
    """Option::is_some calls on a `field` of JmpInfo whose branch dominates accept with a non-reaching edge;
    returns list of (call bb, get-call bb that produced the JmpInfo or None)"""
    out = []
    for bi, t in flow.bool_call_guards(f, accept, "Option::<T>::is_some", d, header):
        srcs = d._op_sources(t["a"][0], 0, set(), True)
        if flow.has_field_source(srcs, "JmpInfo", field):
            gets = sorted(s[2] for s in srcs if s[0] == "call" and s[1].endswith("::get"))
            out.append((bi, tuple(gets)))
    return out


def run(db, tier):
    rep = Report("C07", tier, EXPLANATION, RULE)
    rep.rule("R-GUARD-LOOP", "a backwards jump becomes a loop only after the time/direction/destination/interrupt tests")
    rep.rule("R-GUARD-CHAIN", "an if/else chain is rebuilt only after the time/direction/refcount/kind/common-end tests")
    rep.rule("R-GUARD-JMPINFO", "jumps with difficulty labels are not candidates")
    rep.rule("R-GUARD-BREAK", "a goto becomes `break` only if it has no time and targets the end of the enclosing loop")
    rep.rule("R-GUARD-LABELS", "a label is removed only if nothing in the function refers to it")

    # ---------------- should_decompile_loop
    f = db.fn(DL + "should_decompile_loop")
    rep.fn(f)
    d = flow.Defs(f)
    yes = [bi for bi, b in enumerate(f.blocks) for s in b["s"] if s["r"] == "agg" and (s.get("adt") or "").endswith("ShouldDecompileLoop::Yes")]
    rep.check(len(yes) == 1, "R-GUARD-LOOP", "should_decompile_loop|single-Yes", f.loc, "one accept site", "expected exactly one ShouldDecompileLoop::Yes construction, found %d" % len(yes))
    if yes:
        acc = yes[0]
        g1 = field_is_some_guards(f, d, acc, "time_arg")
        rep.check(bool(g1), "R-GUARD-LOOP", "Yes|time_arg.is_some", f.loc, "jumps with an explicit time are rejected", "a jump with a time argument can be turned into a loop")
        dir_g = [c for c in flow.guards_before(f, acc, d) if flow.has_call_source(c["a"] | c["b"], "JmpInfo::direction_given_src")]
        dir_g2 = flow.bool_call_guards(f, acc, "PartialEq::ne", d) + flow.bool_call_guards(f, acc, "PartialEq::eq", d)
        dir_ok = bool(dir_g) or any(flow.has_call_source(d._op_sources(t["a"][0], 0, set(), True), "direction_given_src") for _, t in dir_g2)
        rep.check(dir_ok, "R-GUARD-LOOP", "Yes|direction", f.loc, "only backwards jumps become loops", "the jump direction is not tested before accepting a loop")
        bs = flow.calls_to(f, "binary_search")
        dom = f.dominators().get(acc, set())
        rep.check(any(b in dom for b, _ in bs), "R-GUARD-LOOP", "Yes|destination-exists", f.loc, "the destination label must still be at this nesting level (binary_search Ok)",
                  "the destination label's presence at this nesting level is not tested")
        anyc = flow.bool_call_guards(f, acc, "Iterator::any", d)
        rep.check(bool(anyc), "R-GUARD-LOOP", "Yes|interrupt-range", f.loc, "loops do not swallow interrupt labels", "the interrupt-label range test no longer guards the accept")

    # ---------------- _gather_cond_chain
    g = db.fn(DL + "_gather_cond_chain")
    rep.fn(g)
    dg = flow.Defs(g)
    accepts = [bi for bi, b in enumerate(g.blocks) for s in b["s"] if s["r"] == "agg" and (s.get("adt") or "").endswith("CondChainInfo")]
    rep.check(len(accepts) == 2, "R-GUARD-CHAIN", "_gather_cond_chain|accept-sites", g.loc, "two accept sites (no-else / else)", "expected 2 CondChainInfo constructions, found %d" % len(accepts))
    gets = sorted(bi for bi, t in g.calls() if t.get("f", "").endswith("BTreeMap::<K, V, A>::get"))
    first_get = gets[0] if gets else None
    for i, acc in enumerate(sorted(accepts)):
        hdr = flow.innermost_header(g, acc)
        domg = g.dominators()
        tg = field_is_some_guards(g, dg, acc, "time_arg", hdr)
        if hdr is not None:
            tg = [x for x in tg if hdr in domg.get(x[0], ())]
        cond_time = [x for x in tg if first_get in x[1]]
        rep.check(bool(cond_time), "R-GUARD-CHAIN", "accept-%d|cond-jump time_arg" % (i + 1), "%s:%d" % (g.file, g.blocks[acc]["t"]["ln"]),
                  "the conditional jump's time_arg is tested before this accept", "a conditional jump with an explicit time can be absorbed into an if-block here (its time would be lost)")
        dirs = [c for c in flow.guards_before(g, acc, dg, hdr) if flow.has_call_source(c["a"] | c["b"], "direction_given_src")]
        dirs += [1 for bi, t in flow.bool_call_guards(g, acc, "PartialEq::eq", dg, hdr) + flow.bool_call_guards(g, acc, "PartialEq::ne", dg, hdr)
                 if flow.has_call_source(dg._op_sources(t["a"][0], 0, set(), True), "direction_given_src")]
        rep.check(bool(dirs), "R-GUARD-CHAIN", "accept-%d|direction" % (i + 1), "%s:%d" % (g.file, g.blocks[acc]["t"]["ln"]),
                  "jump direction tested", "jump direction is not tested before this accept")
    if len(accepts) == 2:
        acc2 = max(accepts, key=lambda a: g.blocks[a]["t"]["ln"])      # the else path (after the loop)
        gs2 = flow.guards_before(g, acc2, dg)
        rc = [c for c in gs2 if flow.has_field_source(c["a"] | c["b"], "JmpInfo", "dest_refcount")]
        rep.check(bool(rc), "R-GUARD-CHAIN", "else-path|dest_refcount", g.loc, "a label with other referrers is not dropped", "dest_refcount is not tested on the else / else-if path")
        # the accepted reference counts must be exactly {<= 1}: evaluate the guard for 0..4
        accepted = None
        for c in rc:
            ka, kb = flow.const_of(c["a"]), flow.const_of(c["b"])
            when = flow.accepted_when(g, c, acc2)
            if when is None or (ka is None and kb is None):
                continue
            OPS = {"Gt": lambda x, y: x > y, "Ge": lambda x, y: x >= y, "Lt": lambda x, y: x < y, "Le": lambda x, y: x <= y, "Eq": lambda x, y: x == y, "Ne": lambda x, y: x != y}
            ok_vals = set(v for v in range(0, 5) if (OPS[c["op"]](v, kb) if kb is not None else OPS[c["op"]](ka, v)) in when)
            accepted = ok_vals if accepted is None else accepted & ok_vals
        rep.check(accepted is not None and accepted <= {0, 1}, "R-GUARD-CHAIN", "else-path|dest_refcount bound", g.loc,
                  "accepted reference counts: %s" % (sorted(accepted) if accepted is not None else None),
                  "an else/else-if label with reference count %s is accepted: other jumps to the label would lose their target" % (sorted(accepted - {0, 1}) if accepted else "?"))
        t2 = field_is_some_guards(g, dg, acc2, "time_arg")
        rep.check(len(set(x[1] for x in t2)) >= 2, "R-GUARD-CHAIN", "else-path|both time_args", g.loc, "time_arg of both the conditional and the unconditional jump is tested",
                  "only %d distinct jump(s) have their time_arg tested on the else path" % len(set(x[1] for x in t2)))
        kinds = []
        for bi, b in enumerate(g.blocks):
            t = b["t"]
            if t["k"] == "switch" and bi in g.dominators().get(acc2, ()):
                l = op_local(t["d"])
                for bj, si, s, pj in dg.stmts.get(l, []) if l is not None else []:
                    if s["r"] == "discr" and any(isinstance(e, list) and e[0] == "f" and e[1] == "kind" for e in place_proj(s["p"])):
                        kinds.append(bi)
        rep.check(bool(kinds), "R-GUARD-CHAIN", "else-path|uncond kind", g.loc, "the jump before the else must be unconditional", "the kind of the jump before `else` is not tested")
        eqs = [c for c in gs2 if c["op"] in ("Ne", "Eq") and flow.has_field_source(c["a"] | c["b"], "JmpInfo", "dest")]
        rep.check(bool(eqs), "R-GUARD-CHAIN", "else-path|common-end-equality", g.loc, "all jumps to the end go to the same label (equality)", "the common end label is not enforced by an equality test")
    # equality only between destinations and the known end
    ordering = []
    for c in flow.comparisons(g, dg):
        if c["op"] in ("Lt", "Le", "Gt", "Ge"):
            both = (flow.has_field_source(c["a"], "JmpInfo", "dest") and any(s[0] == "field" and s[1] == "core::option::Option::Some" for s in c["b"])) or \
                   (flow.has_field_source(c["b"], "JmpInfo", "dest") and any(s[0] == "field" and s[1] == "core::option::Option::Some" for s in c["a"]))
            if both:
                ordering.append(c)
    rep.check(not ordering, "R-GUARD-CHAIN", "dest-vs-known-end|equality-only", g.loc, "a jump destination is compared with the known end only by equality",
              "a jump destination is compared with the known end label by an ordering (line %s): a jump past the end would be accepted" % [c["ln"] for c in ordering])
    ne = [c for c in flow.comparisons(g, dg) if c["op"] in ("Ne", "Eq") and flow.has_field_source(c["a"] | c["b"], "JmpInfo", "dest")
          and any(s[0] == "field" and s[1] == "core::option::Option::Some" for s in c["a"] | c["b"])]
    rep.check(len(ne) >= 2, "R-GUARD-CHAIN", "dest-vs-known-end|both-equalities", g.loc, "both the no-else jump and the jumps-to-end are compared with the known end",
              "expected two equality tests of destinations against the known end label, found %d" % len(ne))

    # direction of BOTH jumps on the else path (distinct JmpInfo lookups)
    if len(accepts) == 2:
        dsrc = set()

        def jump_of(side):
            for x in side:
                if x[0] == "call" and x[1].endswith("direction_given_src"):
                    recv = dg._op_sources(g.blocks[x[2]]["t"]["a"][0], 0, set(), True)
                    dsrc.add(tuple(sorted(y[2] for y in recv if y[0] == "call" and y[1].endswith("::get"))))
        for c in flow.guards_before(g, acc2, dg):
            jump_of(c["a"])
            jump_of(c["b"])
        for bi, t in flow.bool_call_guards(g, acc2, "PartialEq::eq", dg) + flow.bool_call_guards(g, acc2, "PartialEq::ne", dg):
            jump_of(dg._op_sources(t["a"][0], 0, set(), True))
            jump_of(dg._op_sources(t["a"][1], 0, set(), True))
        rep.check(len(dsrc) >= 2, "R-GUARD-CHAIN", "else-path|both directions", g.loc, "direction of both the conditional and the unconditional jump is tested",
                  "only %d distinct jump(s) have their direction tested on the else path (a backwards jump-to-end would be absorbed)" % len(dsrc))

    # the block condition is the COMPLEMENT of the jump condition
    from rules import hirq
    Lg = hirq.lets(g)
    conds = [n for n in hir_walk(g.hir) if n.get("k") == "Struct" and n.get("p", "").endswith("CondBlockInfo")]
    rep.check(len(conds) == 1, "R-GUARD-CHAIN", "cond|construction site", g.loc, "one CondBlockInfo construction", "expected one CondBlockInfo construction, found %d" % len(conds))
    for cb in conds:
        ce = dict((nm, e) for nm, e in cb["fs"]).get("cond")
        binops = [n for n in hir_walk(ce) if n.get("k") == "Call" and (n.get("f") or "").endswith("Expr::BinOp")] if ce else []
        ok = False
        detail = "the condition of the rebuilt block is not built as BinOp(a, <op>, b)"
        if len(binops) == 1 and len(binops[0]["a"]) == 3:
            opn = binops[0]["a"][1]
            names = [v for t, v in hirq.features(g, opn, {}) if t == "local"]
            init = hirq.let_before(Lg, names[0], opn.get("ln", 10 ** 9)) if len(names) == 1 else None
            if init is not None:
                calls = [c["f"] for c in hirq.call_seq(init)]
                allowed = ("negate_comparison", "ok_or", "Try::branch", "from_residual", "ok_or_else")
                extra = [c for c in calls if not c.endswith(allowed)]
                has_closure = any(n.get("k") == "Closure" for n in hir_walk(init))
                ok = any(c.endswith("BinOpKind::negate_comparison") for c in calls) and not extra and not has_closure
                detail = "the operator of the rebuilt block comes from %s%s" % ([c.rsplit("::", 1)[-1] for c in calls], " through a closure" if has_closure else "")
            else:
                detail = "the operator of the rebuilt block is %s, not the result of negate_comparison" % names
        rep.check(ok, "R-GUARD-CHAIN", "cond|complemented operator", "%s:%d" % (g.file, cb["ln"]), "`if (a op b) goto skip` becomes `if (a !op b) { .. }`", detail)

    # a decrement jump (`--x > 0`) is not a comparison that can be complemented
    ab = db.fn(DL + "JmpKind::as_binop_cond")
    rep.fn(ab)
    okx = False
    for n in hir_walk(ab.hir):
        if n.get("k") == "Match" and n.get("src") == "Normal":
            for arm in n["arms"]:
                if any(x and "Expr::BinOp" in x for x in arms.pat_sig(arm["p"])) and arms.abstract(arm["b"])[:2] == ("ctor", "core::option::Option::Some"):
                    g_ = arm.get("g")
                    if g_ is not None and any(x and "ast::Expr::XcrementOp" in x for m_ in hir_walk(g_) if m_.get("k") == "Match" for a_ in m_["arms"] for x in arms.pat_sig(a_["p"])):
                        okx = True
    rep.check(okx, "R-GUARD-CHAIN", "cond|decrement jump", ab.loc, "a condition whose left side is `--x` is not offered for complementing",
              "as_binop_cond accepts `--x > 0` as a comparison: the if-block would get the condition `--x <= 0`, which no instruction implements, "
              "so the decompiled script cannot be compiled back")

    # ---------------- R-GUARD-REL: the relations that guard the accept sites may only get stricter
    from rules import guardrel
    rep.rule("R-GUARD-REL", "each relation that was required on the way to an accept site (loop / if-else chain / break recovery) on the reviewed tree is "
                            "still implied by a current guard with the same operands: guards may be added or tightened, not dropped, weakened or inverted")
    n_gr = guardrel.check(db, rep, ["should_decompile_loop|Yes", "_gather_cond_chain|accept", "MakeBreakVisitor::visit_jump|break"])
    rep.floor("frozen guard relations (decompile_loop)", n_gr, 5)

    # interrupt labels: gather_cond_chain accepts only after reject_potentially_confusing_cond_chain
    gc = db.fn(DL + "gather_cond_chain")
    rep.fn(gc)
    rj = flow.calls_to(gc, "reject_potentially_confusing_cond_chain")
    errs = flow.error_exit_blocks(gc)
    okret = [bi for bi, b in enumerate(gc.blocks) if b["t"]["k"] == "ret"]
    bypass = gc.reachable_from(0, avoid=set(b for b, _ in rj) | errs)
    rep.check(bool(rj) and not any(r in bypass for r in okret), "R-GUARD-CHAIN", "gather_cond_chain|interrupt check on every accept", gc.loc,
              "every Ok path passes reject_potentially_confusing_cond_chain", "a chain can be accepted without the interrupt-label check")
    rf = db.fn(DL + "reject_potentially_confusing_cond_chain")
    rep.fn(rf)
    drf = flow.Defs(rf)
    oks = [bi for bi, b in enumerate(rf.blocks) for s_ in b["s"] if s_["r"] == "agg" and (s_.get("adt") or "").endswith("Result::Ok")]
    anyg = [x for a_ in oks for x in flow.bool_call_guards(rf, a_, "Iterator::any", drf)]
    rep.check(bool(oks) and bool(anyg), "R-GUARD-CHAIN", "reject|interrupt-range", rf.loc, "a chain containing an interrupt label is rejected",
              "the interrupt-label range test no longer guards acceptance of a chain")

    # ---------------- JmpInfo::from_stmt
    j = db.fn(JI + "::from_stmt")
    rep.fn(j)
    dj = flow.Defs(j)
    oks = [bi for bi, b in enumerate(j.blocks) for s in b["s"] if s["r"] == "agg" and (s.get("adt") or "") == JI]
    ok = False
    for acc in oks:
        for bi, t in flow.bool_call_guards(j, acc, "Option::<T>::is_some", dj):
            if flow.has_field_source(dj._op_sources(t["a"][0], 0, set(), True), "ast::Stmt", "diff_label"):
                ok = True
    rep.check(ok, "R-GUARD-JMPINFO", "from_stmt|diff_label", j.loc, "statements with a difficulty label are not jump candidates", "from_stmt accepts jumps that carry a difficulty label")

    # ---------------- MakeBreakVisitor::visit_jump
    v = db.fn("<passes::decompile_loop::MakeBreakVisitor as ast::mut_::VisitMut>::visit_jump")
    rep.fn(v)
    pat_ok = False
    for n in hir_walk(v.hir):
        if n.get("k") == "LetE":
            sg = arms.pat_sig(n["p"])
            if any(s and "StmtJumpKind::Goto" in s and "time: core::option::Option::None" in s for s in sg):
                pat_ok = True
    rep.check(pat_ok, "R-GUARD-BREAK", "visit_jump|goto-without-time", v.loc, "only `goto L` with time None is considered", "the break rewrite no longer requires time: None")
    dv = flow.Defs(v)
    bc = [bi for bi, b in enumerate(v.blocks) for s in b["s"] if s["r"] == "agg" and (s.get("adt") or "").endswith("StmtJumpKind::BreakContinue")]
    ok = False
    for acc in bc:
        for c in flow.guards_before(v, acc, dv):
            if c["op"] in ("Eq", "Ne"):
                ok = True
        for bi, t in flow.bool_call_guards(v, acc, "PartialEq::eq", dv):
            ok = True
    rep.check(bool(bc) and ok, "R-GUARD-BREAK", "visit_jump|same-loop", v.loc, "the loop ids are compared before rewriting to break", "the goto is rewritten to `break` without comparing loop ids")

    # ---------------- unused_labels
    u = db.fn("<passes::unused_labels::Visitor as ast::mut_::VisitMut>::visit_block")
    rep.fn(u)
    cl = db.children.get(u.id, [])
    ok = False
    for c in cl:
        dc = flow.Defs(c)
        for cmp_ in flow.comparisons(c, dc):
            if cmp_["op"] in ("Gt", "Ne", "Eq", "Lt") and (any(x.get("iv") == 0 if isinstance(x, dict) else False for x in ()) or True):
                srcs = cmp_["a"] | cmp_["b"]
                if flow.has_call_source(srcs, "unwrap_or") or flow.has_call_source(srcs, "::get") or flow.has_call_source(srcs, "copied"):
                    ok = True
    rep.check(ok, "R-GUARD-LABELS", "visit_block|refcount>0-kept", u.loc, "a label is kept iff its reference count is > 0", "label removal is no longer decided by the reference count")
    rc = db.fn("passes::unused_labels::get_label_refcounts")
    rep.fn(rc)
    impls = [x for x in db.fns.values() if x.id.startswith("<passes::unused_labels::get_label_refcounts::Visitor as ast::ref_::Visit>::")]
    names = set(x.id.rsplit("::", 1)[-1] for x in impls)
    rep.check({"visit_jump", "visit_expr"} <= names, "R-GUARD-LABELS", "refcounts|goto-and-label-property", rc.loc, "both gotos and offsetof/timeof references are counted",
              "get_label_refcounts no longer counts both jump destinations and label-property expressions (overrides: %s)" % sorted(names))
    for x in impls:
        nm = x.id.rsplit("::", 1)[-1]
        if nm in ("visit_jump", "visit_expr"):
            calls = arms.calls_in(x.hir)
            walks = any(c.endswith("walk_jump") or c.endswith("walk_expr") for c in calls)
            rep.check(walks, "R-GUARD-LABELS", "refcounts|%s-recurses" % nm, x.loc, "%s walks nested nodes" % nm, "%s no longer recurses (references in nested expressions are missed)" % nm)
    ub = db.fn("<passes::unused_labels::Visitor as ast::mut_::VisitMut>::visit_root_block")
    rep.fn(ub)
    rep.check("passes::unused_labels::get_label_refcounts" in arms.calls_in(ub.hir), "R-GUARD-LABELS", "visit_root_block|whole-function-counts", ub.loc,
              "reference counts are computed for the whole function body", "reference counts are no longer computed per function body")
    # ---------------- reference counts are whole-function counts in every reconstruction visitor
    n_rc = 0
    for g2 in sorted(db.fns.values(), key=lambda x: x.id):
        if g2.gen or not (g2.id.startswith("passes::decompile_loop::") or g2.id.startswith("<passes::decompile_loop::")):
            continue
        for bi, t in g2.calls():
            if t.get("f") == "passes::unused_labels::get_label_refcounts":
                n_rc += 1
                okrc = g2.id.endswith("::visit_root_block")
                rep.check(okrc, "R-GUARD-LABELS", "refcounts|%s" % g2.id, "%s:%d" % (g2.file, t["ln"]),
                          "label reference counts are taken once over the whole function body (visit_root_block)",
                          "label reference counts are computed in %s, i.e. per nested block: jumps into a block from outside it are not counted, "
                          "so a label that something else still jumps to can be removed" % g2.id.rsplit("::", 1)[-1])
    rep.floor("get_label_refcounts call sites in decompile_loop", n_rc, 1)

    # ---------------- break: only labels IMMEDIATELY after the loop are loop ends
    gl = [x for x in db.fns.values() if x.id.startswith("<passes::decompile_loop::gather_loop_end_labels::Visitor as ast::ref_::Visit>::visit_block")]
    if not gl:
        raise MissingAnchor("gather_loop_end_labels::Visitor::visit_block")
    gl = gl[0]
    rep.fn(gl)
    kinds = set()
    for n in hir_walk(gl.hir):
        pats = []
        if n.get("k") == "Match":
            pats = [a_["p"] for a_ in n["arms"]]
        elif n.get("k") == "LetE":
            pats = [n["p"]]
        for p_ in pats:
            for sg in arms.pat_sig(p_):
                if sg:
                    import re as _re
                    kinds |= set(_re.findall(r"ast::StmtKind::(\w+)", sg))
    rep.check(kinds == {"Label"}, "R-GUARD-BREAK", "loop-end labels|adjacent only", gl.loc, "only Label statements directly after the loop count as its end",
              "statement kinds %s are skipped when looking for the loop's end label: a time label between the loop and the label changes the time at "
              "which `break` lands, so the jump's target time is altered" % sorted(kinds - {"Label"}))
    return rep
