"""C01 Decompile then recompile reproduces the binary bit-for-bit (structural necessary conditions)."""
import re
from common import Report, Broken
from facts import MissingAnchor
from facts import hir_walk, op_local, op_place, place_local, place_proj
from rules import arms, flow, codec
from rules.visit import variant_alternatives

EXPLANATION = (
    "Necessary conditions of the round trip that are visible in the shape of the code (the byte equality itself is a "
    "run-time relation and is NOT decided).  R-HEADER-CODEC: for each of the 9 InstrFormat impls every header field is "
    "read with the type it is written with (bit-preserving sign changes excepted) and the bytes written before the "
    "argument blob equal instr_header_size() (jump offsets, label offsets and end offsets are all derived from that "
    "constant).  R-LABEL-CODEC: a LanguageHooks impl overrides encode_label iff it overrides decode_label, and the two "
    "bodies are inverse operator shapes (dest - cur <-> cur + bits; dest / k <-> bits * k with the same constant k; "
    "identity <-> identity).  R-RECOGNISE: each decompile recogniser that folds several instructions into one "
    "statement accepts only behind its preconditions - recognize_diff_switch: per-element equality of kind and time, "
    "no label after the first instruction, equal aux mask, first()==next_difficulty and contiguous bits; "
    "recognize_double_instr_intrinsic / recognize_reg_call: equal (time, difficulty_mask) and no label on later "
    "instructions, and for reg calls the expected argument register and read type == inherent type.  R-JUMP-ARGS: "
    "lowering (populate_time_args) and raising (raise_intrinsic_parts) place the (offset, time) pair at the same "
    "relative indices for every JumpArgOrder, and both sides consume all four parts of IntrinsicInstrAbiParts.  Block "
    "recovery (C07), formatter/parser agreement (C08), times (C13) and argument codecs (C12) are their own checks.")
RULE = "instance = one header field pair / label codec pair / recogniser guard / jump-order arm"

RI = "llir::raise::RaiseInstr"
REC = "llir::raise::recognize::"


def consts_in(f, op):
    out = []
    for b in f.blocks:
        for s in b["s"]:
            if s["r"] == "binop" and s["op"] == op:
                for k in ("a", "b"):
                    if isinstance(s[k], dict) and "iv" in s[k]:
                        out.append(s[k]["iv"])
    return out


def binops(f):
    return [s["op"] for b in f.blocks if not b.get("cleanup") for s in b["s"] if s["r"] == "binop" and s["op"] in ("Add", "Sub", "Mul", "Div", "AddWithOverflow", "SubWithOverflow", "MulWithOverflow")]


def run(db, tier):
    rep = Report("C01", tier, EXPLANATION, RULE)
    rep.rule("R-HEADER-CODEC", "instruction headers are read exactly as they are written, and their size is the declared header size")
    rep.rule("R-LABEL-CODEC", "label encoders and decoders are overridden together and are inverse operator shapes")
    rep.rule("R-RECOGNISE", "instructions are folded into one statement only behind the preconditions that make the fold reversible")
    rep.rule("R-JUMP-ARGS", "lowering and raising agree on where jump offset/time arguments live")
    rep.rule("R-LABEL-EMIT", "the time labels the decompiler prints reproduce every stored time (shared with C13: order-abstract "
                             "evaluation of LabelEmitter over all orderings of prev_time, time and 0)")
    from props.c13 import _label_emit_orderings
    le = db.fn("llir::raise::late::LabelEmitter::emit_offset_and_time_labels_with")
    rep.fn(le)
    _label_emit_orderings(rep, le)

    # ---------------- R-HEADER-CODEC
    fmts = codec.instr_formats(db)
    rep.floor("InstrFormat impls", len(fmts), 9)
    n = 0
    for name, r, w, h in fmts:
        rep.fn(r)
        rep.fn(w)
        rf = codec.reader_fields(db, r)
        wf = codec.writer_fields(db, w)
        for fld in sorted(set(rf) & set(wf)):
            n += 1
            probs = [p for p in (codec.compare(pr, c, x) for pr, c in rf[fld] for x in wf[fld]) if p]
            rep.check(not probs, "R-HEADER-CODEC", "%s|%s" % (name, fld), "%s / %s" % (r.loc, w.loc),
                      "read_%s <-> write_%s" % ("/".join(p for p, _ in rf[fld]), "/".join(wf[fld])), "; ".join(probs))
        for fld in sorted(set(wf) - set(rf)):
            rep.bad("R-HEADER-CODEC", "%s|%s" % (name, fld), w.loc, "header field %s is written but never read back into RawInstr" % fld)
        if h is not None:
            size = None
            for b in h.blocks:
                for st in b["s"]:
                    if st["r"] == "use" and place_local(st["d"]) == 0 and isinstance(st["o"], dict) and "iv" in st["o"]:
                        size = st["o"]["iv"]
            total = 0
            for bi, t in w.calls():
                m = codec.WPRIM.match(t.get("f", ""))
                if m:
                    total += codec.BITS[m.group(1)] // 8
                elif t.get("f") == "io::BinWrite::write_all" and len(t["a"]) > 1:
                    l = op_local(t["a"][1])
                    ty = w.local_ty(l) if l is not None else ""
                    for b2 in w.blocks:
                        for st in b2["s"]:
                            if st["r"] == "cast" and place_local(st["d"]) == l:
                                ty = db.types[st["from"]]
                    mm = re.match(r"^&\[u8; (\d+)\]$", ty)
                    if mm:
                        total += int(mm.group(1))
            rep.check(size is not None and total == size, "R-HEADER-CODEC", "%s|header-size" % name, w.loc,
                      "%d bytes written before the blob == instr_header_size()" % total,
                      "write_instr emits %d header bytes but instr_header_size() is %s" % (total, size))
    rep.floor("paired header fields", n, 30)

    # ---------------- R-LABEL-CODEC
    pairs = {}
    for im in db.impls:
        if im["trait"] != "llir::LanguageHooks":
            continue
        e = d = None
        for it in im["items"]:
            if it["n"] == "encode_label":
                e = db.fns.get(it["id"])
            if it["n"] == "decode_label":
                d = db.fns.get(it["id"])
        pairs[im["self"]] = (e, d, im)
    pairs["<default>"] = (db.fn("llir::LanguageHooks::encode_label"), db.fn("llir::LanguageHooks::decode_label"), None)
    rep.floor("LanguageHooks impls", len(pairs) - 1, 7)
    n_over = 0
    for name, (e, d, im) in sorted(pairs.items()):
        loc = e.loc if e else (d.loc if d else ("%s:%d" % (im["file"], im["line"]) if im else ""))
        if (e is None) != (d is None):
            rep.bad("R-LABEL-CODEC", "%s|overridden-together" % name, loc, "%s overrides only %s" % (name, "encode_label" if e else "decode_label"))
            continue
        if e is None:
            continue
        n_over += 1
        rep.fn(e)
        rep.fn(d)
        eo, do = binops(e), binops(d)
        es = set(x.replace("WithOverflow", "") for x in eo)
        ds = set(x.replace("WithOverflow", "") for x in do)
        ok = False
        why = "encode uses %s, decode uses %s" % (sorted(es), sorted(ds))
        if not es and not ds:
            ok = True
            how = "identity <-> identity"
        elif es == {"Sub"} and ds == {"Add"}:
            ok = True
            how = "dest - cur <-> cur + bits"
        elif es <= {"Div", "Rem"} and "Div" in es and ds == {"Mul"}:
            ke = set(consts_in(e, "Div"))
            kd = set(consts_in(d, "Mul")) | set(consts_in(d, "MulWithOverflow"))
            ok = bool(ke) and ke == kd
            how = "dest / %s <-> bits * %s" % (sorted(ke), sorted(kd))
            why = "division constant %s but multiplication constant %s" % (sorted(ke), sorted(kd))
        rep.check(ok, "R-LABEL-CODEC", "%s|inverse" % name, e.loc, how if ok else "", "encode_label / decode_label of %s are not inverse shapes: %s" % (name, why))
    rep.floor("label codec pairs", n_over, 4)

    # ---------------- R-RECOGNISE
    def accepts_of(g):
        out = []
        for bi, b in enumerate(g.blocks):
            for s in b["s"]:
                if s["r"] == "agg" and s.get("adt") == RI:
                    out.append(("construct", bi))
            t = b["t"]
            if t["k"] == "call" and t.get("f", "").endswith("Vec::<T, A>::push") and not b.get("cleanup"):
                out.append(("push", bi))
        return out

    def guards(g, dg, acc):
        hdr = flow.innermost_header(g, acc)
        gs = flow.guards_before(g, acc, dg, hdr)
        if hdr is not None:
            dom = g.dominators()
            gs = [c for c in gs if hdr in dom.get(c["switch"], ())]
        return gs, hdr

    def both_sides_field(c, field):
        return any(x[0] == "field" and x[2] == field for x in c["a"]) and any(x[0] == "field" and x[2] == field for x in c["b"])

    g = db.fn(REC + "recognize_diff_switch")
    rep.fn(g)
    dg = flow.Defs(g)
    for kind, acc in accepts_of(g):
        if kind != "push":
            continue
        gs, hdr = guards(g, dg, acc)
        loc = "%s:%d" % (g.file, g.blocks[acc]["t"]["ln"])
        for fld in ("time", "kind"):
            rep.check(any(both_sides_field(c, fld) for c in gs), "R-RECOGNISE", "diff_switch|per-element %s" % fld, loc,
                      "every folded instruction is compared with the first on `%s`" % fld,
                      "instructions are folded into a difficulty switch without a per-element comparison of `%s`" % fld)
        emp = flow.bool_call_guards(g, acc, "::is_empty", dg, hdr, dominate=False)
        rep.check(bool(emp), "R-RECOGNISE", "diff_switch|no-label-after-first", loc, "a label on a later instruction stops the fold", "labels on later instructions are not tested")
        cont = flow.bool_call_guards(g, acc, "bitmask_bits_are_contiguous", dg, hdr)
        rep.check(bool(cont), "R-RECOGNISE", "diff_switch|contiguous-bits", loc, "difficulty bits must be contiguous", "bitmask_bits_are_contiguous no longer guards the fold")
        first = [c for c in gs if flow.has_call_source(c["a"] | c["b"], "BitSet32::first")] + \
                [1 for _, t in flow.bool_call_guards(g, acc, "PartialEq::eq", dg, hdr) + flow.bool_call_guards(g, acc, "PartialEq::ne", dg, hdr)
                 if flow.has_call_source(dg._op_sources(t["a"][0], 0, set(), True) | dg._op_sources(t["a"][1], 0, set(), True), "BitSet32::first")]
        rep.check(bool(first), "R-RECOGNISE", "diff_switch|first==next_difficulty", loc, "no holes: the mask's first bit must be the next difficulty", "first()==next_difficulty is not tested")
        aux = [1 for _, t in flow.bool_call_guards(g, acc, "PartialEq::ne", dg, hdr) + flow.bool_call_guards(g, acc, "PartialEq::eq", dg, hdr)
               if flow.has_call_source(dg._op_sources(t["a"][0], 0, set(), True) | dg._op_sources(t["a"][1], 0, set(), True), "get_or_insert")]
        rep.check(bool(aux), "R-RECOGNISE", "diff_switch|same-aux-mask", loc, "all folded instructions share the aux (default-on) mask bits", "the aux mask of folded instructions is not compared")
    for fid, short in ((REC + "recognize_double_instr_intrinsic", "double_instr"), (REC + "recognize_reg_call", "reg_call")):
        g = db.fn(fid)
        rep.fn(g)
        dg = flow.Defs(g)
        accs = accepts_of(g)
        rep.check(bool(accs), "R-RECOGNISE", "%s|has-accept" % short, g.loc, "accept sites found", "no accept site found")
        k = 0
        for kind, acc in accs:
            k += 1
            gs, hdr = guards(g, dg, acc)
            loc = "%s:%d" % (g.file, g.blocks[acc]["t"]["ln"])
            for fld in ("time", "difficulty_mask"):
                rep.check(any(both_sides_field(c, fld) for c in gs), "R-RECOGNISE", "%s|accept-%d|%s" % (short, k, fld), loc,
                          "`%s` of the folded instructions is compared" % fld, "instructions are folded without comparing `%s`" % fld)
            emp = flow.bool_call_guards(g, acc, "::is_empty", dg, hdr, dominate=False)
            rep.check(bool(emp), "R-RECOGNISE", "%s|accept-%d|labels" % (short, k), loc, "later instructions must carry no label", "labels on later instructions are not tested")
        if short == "reg_call":
            calls = [t.get("f", "") for _, t in g.calls()]
            rep.check(any(c.endswith("var_read_ty_from_ast") for c in calls) and any(c.endswith("var_inherent_ty_from_ast") for c in calls),
                      "R-RECOGNISE", "reg_call|read-type==inherent-type", g.loc, "argument assignments must use the register's own type", "read type vs inherent type is no longer compared")
            rep.check(any(c.endswith("Iterator::next") for c in calls), "R-RECOGNISE", "reg_call|expected-register-order", g.loc,
                      "argument registers must appear in the call convention's order", "the expected argument register sequence is no longer consulted")

    from rules import guardrel
    rep.rule("R-GUARD-REL", "each relation that was required before instructions are folded (diff switch, two-part intrinsic, register call) on the reviewed "
                            "tree is still implied by a current guard with the same operands: guards may be tightened, not dropped, weakened or inverted")
    n_gr = guardrel.check(db, rep, ["recognize_diff_switch|fold", "recognize_double_instr_intrinsic|fold", "recognize_reg_call|fold"])
    rep.floor("frozen guard relations (recognisers)", n_gr, 5)

    # ---------------- R-JUMP-ARGS
    lo = db.fn("llir::lower::intrinsic::populate_time_args")
    ra = db.fn("llir::raise::early::AtomRaiser::<'_, '_>::raise_intrinsic_parts")
    rep.fn(lo)
    rep.fn(ra)
    JO = "llir::intrinsic::abi_parts::JumpArgOrder"

    def order_table(f, side):
        m = arms.first_match(f, db, JO)
        t = {}
        if m is None:
            return t
        for vs, arm in arms.simple_table(m):
            names = []
            if side == "lower":
                # vec![a, b]: order of the two locals
                for n_ in hir_walk(arm["b"]):
                    if n_.get("k") == "Path" and n_.get("rk") == "Local" and n_["p"] in ("label_arg", "time_arg"):
                        names.append("offset" if n_["p"] == "label_arg" else "time")
            else:
                # (offset expr, time expr): index offsets used for each
                b = arms.unwrap_block(arm["b"])
                if b.get("k") == "Tup" and len(b["es"]) == 2:
                    def idx(e):
                        plus = [x for x in hir_walk(e) if x.get("k") == "Binary" and x["op"] == "+"]
                        has_index = any(x.get("k") == "Index" for x in hir_walk(e))
                        if not has_index:
                            return None
                        return 1 if plus else 0
                    io, it = idx(b["es"][0]), idx(b["es"][1])
                    pos = {}
                    if io is not None:
                        pos[io] = "offset"
                    if it is not None:
                        pos[it] = "time"
                    names = [pos[k] for k in sorted(pos)]
            for v in vs:
                t[v.rsplit("::", 1)[-1]] = names
        return t
    tl, tr = order_table(lo, "lower"), order_table(ra, "raise")
    rep.floor("JumpArgOrder arms (lower)", len(tl), 3)
    rep.floor("JumpArgOrder arms (raise)", len(tr), 3)
    for v in sorted(set(tl) | set(tr)):
        rep.check(tl.get(v) == tr.get(v) and tl.get(v), "R-JUMP-ARGS", "order|%s" % v, lo.loc, "both sides: %s" % tl.get(v),
                  "JumpArgOrder::%s: lowering writes %s but raising reads %s" % (v, tl.get(v), tr.get(v)))
    iv = db.fn("llir::lower::intrinsic::IntrinsicBuilder::<'_>::into_vec")
    rep.fn(iv)
    for f, side in ((iv, "lower"), (ra, "raise")):
        flds = set()
        for n_ in hir_walk(f.hir):
            if n_.get("k") == "Let" or True:
                pass
        for st in _lets(f.hir):
            p = st["p"]
            while p["k"] == "Ref":
                p = p["p"]
            if p["k"] == "Struct" and p["p"].endswith("IntrinsicInstrAbiParts"):
                for name, q in p["fs"]:
                    from rules.visit import bound_names
                    if bound_names(q):
                        flds.add(name)
        need = {"plain_args", "outputs", "jump", "sub_id"}
        rep.check(need <= flds, "R-JUMP-ARGS", "%s|uses-all-abi-parts" % side, f.loc, "plain_args, outputs, jump and sub_id are all consumed",
                  "%s side ignores %s of IntrinsicInstrAbiParts" % (side, sorted(need - flds)))
    # ---------------- R-FILE-ORDER: MSG scripts are kept in file order
    rep.rule("R-FILE-ORDER", "read_msg builds the script list by walking the script offsets in ascending order (an ordered set), so that the "
                             "compiler, which writes scripts in list order, reproduces the original layout; the order of the script TABLE "
                             "(which may mention scripts in any order, repeatedly) must not decide it")
    rm = db.fn("formats::msg::read_msg")
    rep.fn(rm)
    srcs = []
    for bi, t in rm.calls():
        ga = t.get("ga") or []
        if t.get("f", "").endswith(("collect_with_recovery", "Iterator::collect")) and len(ga) > 1 and "llir::RawScript" in ga[1]:
            srcs.append((t["ln"], ga[0]))
    if not srcs:
        raise MissingAnchor("the collect() that builds MsgFile.scripts in read_msg")
    for k_, (ln, ty) in enumerate(srcs):
        if "collections::btree::" in ty:
            rep.ok("R-FILE-ORDER", "read_msg|scripts-%d" % (k_ + 1), "%s:%d" % (rm.file, ln), "iterates " + ty[:120])
        elif "indexmap::" in ty or "collections::hash::" in ty or "slice::iter::Iter<'_, formats::msg::RawScriptTableEntry>" in ty or "IntoIter<formats::msg::RawScriptTableEntry>" in ty:
            rep.bad("R-FILE-ORDER", "read_msg|scripts-%d" % (k_ + 1), "%s:%d" % (rm.file, ln),
                    "the script list is built in the iteration order of %s, i.e. table / first-mention order, not file-offset order: "
                    "recompiling lays the scripts out differently from the original file" % ty[:140])
        else:
            raise Broken("R-FILE-ORDER: cannot classify the iteration source %s" % ty[:160])
    # ---------------- R-ENTRY-LAYOUT: ANM entry header reader / writer / patch-offset table
    rep.rule("R-ENTRY-LAYOUT", "for both ANM entry-header layouts: read_header reads the same sequence of field widths that write_header writes, "
                               "and each offset_to_*() equals the byte position of that field in write_header under the SAME layout predicate "
                               "(the offsets are used to patch the header after the entry body is written)")
    from rules import hirq
    FF = "formats::anm::read_write::FileFormat::"
    wh = db.fn(FF + "write_header")
    rh = db.fn(FF + "read_header")
    rep.fn(wh)
    rep.fn(rh)
    WIDTH = {"u8": 1, "i8": 1, "u16": 2, "i16": 2, "u32": 4, "i32": 4, "f32": 4}

    def layout_if(fn_):
        for n in hir_walk(fn_.hir):
            if n.get("k") == "If" and n["c"].get("k") == "MCall" and (n["c"].get("f") or "").endswith("Version::is_old_header") and "el" in n:
                return n
        raise MissingAnchor("`if self.version.is_old_header()` in " + fn_.id)

    def seq(fn_, branch, prefix):
        out = []
        for c in hirq.call_seq(branch):
            m = re.match(r"^io::Bin(Write|Read)::" + prefix + r"_(u8|i8|u16|i16|u32|i32|f32)$", c["f"])
            if m:
                flds = [v for t_, v in hirq.features(fn_, c["a"][0], {}) if t_ == "field"] if c.get("a") else []
                out.append((WIDTH[m.group(2)], flds[0] if len(flds) == 1 else None))
            elif re.match(r"^io::Bin(Write|Read)::" + prefix + r"_", c["f"]):
                out.append((None, None))      # a bulk primitive (padding): stop the positional comparison here
        return out
    wi, ri = layout_if(wh), layout_if(rh)
    layouts = {}
    for name, wb, rb in (("old", wi["t"], ri["t"]), ("new", wi["el"], ri["el"])):
        ws, rs = seq(wh, wb, "write"), seq(rh, rb, "read")
        n_cmp = 0
        bad = None
        for i, (w_, r_) in enumerate(zip(ws, rs)):
            if w_[0] is None or r_[0] is None:
                break
            n_cmp += 1
            if w_[0] != r_[0] and bad is None:
                bad = "field #%d: write_header writes %d bytes%s, read_header reads %d" % (i + 1, w_[0], " (%s)" % w_[1] if w_[1] else "", r_[0])
        rep.check(bad is None and n_cmp >= 14, "R-ENTRY-LAYOUT", "%s-header|read/write widths" % name, wh.loc,
                  "%d fields, widths agree position by position" % n_cmp, bad or "only %d comparable fields found" % n_cmp)
        pos, off = {}, 0
        for w_, fld in ws:
            if w_ is None:
                break
            if fld:
                pos[fld] = off
            off += w_
        layouts[name] = pos
    OFFSET_FNS = {"offset_to_next_offset": "next_offset", "offset_to_path_offset": "name_offset",
                  "offset_to_path_2_offset": "secondary_name_offset", "offset_to_thtx_offset": "thtx_offset"}
    for fname, fld in sorted(OFFSET_FNS.items()):
        of = db.fn(FF + fname)
        rep.fn(of)
        try:
            oi = layout_if(of)
        except MissingAnchor:
            rep.bad("R-ENTRY-LAYOUT", fname + "|predicate", of.loc,
                    "%s() does not branch on is_old_header(), the predicate that selects the header layout in write_header/read_header: "
                    "for some versions the %s field is written/read but never patched (or patched at the wrong place)" % (fname, fld))
            continue
        for name, br in (("old", oi["t"]), ("new", oi["el"])):
            fe = hirq.features(of, br, {})
            lits = [v for t_, v in fe if t_ == "lit"]
            is_none = hirq.has_ctor(fe, "Option::None")
            want = layouts[name].get(fld)
            got = int(lits[0], 0) if len(lits) == 1 and re.match(r"^(0x[0-9a-fA-F]+|\d+)$", lits[0]) else None
            ok = (want is None and is_none) or (want is not None and got == want)
            rep.check(ok, "R-ENTRY-LAYOUT", "%s|%s" % (fname, name), of.loc, "%s header: %s at byte %s" % (name, fld, want),
                      "%s header: write_header puts %s at byte %s but %s() says %s" % (name, fld, want, fname, "None" if is_none else got))
    # ---------------- R-ENTRY-END: where the last script of an ANM entry ends
    rep.rule("R-ENTRY-END", "read_entry bounds every script by the closest following offset of the entry, and the start of the NEXT entry is "
                            "one of the candidates (an entry without texture may end with a script; formats without an end marker would "
                            "otherwise run into the next entry's header)")
    re_ = db.fn("formats::anm::read_write::read_entry")
    rep.fn(re_)
    L_ = hirq.lets(re_)
    cand = set()
    for c in hirq.call_seq(re_.hir, ("Extend::extend", "::extend", "Vec::<T, A>::push")):
        recv = hirq.features(re_, c.get("r") or (c["a"][0] if c.get("a") else {}), {})
        if hirq.has_local(recv, "all_offsets"):
            for a in c.get("a", []):
                cand |= set(v for t_, v in hirq.features(re_, a, {}) if t_ == "field")
    for init in L_.get("all_offsets", []):
        cand |= set(v for t_, v in hirq.features(re_, init, {}) if t_ == "field")
    need = {"name_offset", "thtx_offset", "secondary_name_offset", "next_offset"}
    rep.check(need <= cand, "R-ENTRY-END", "read_entry|end candidates", re_.loc, "script end candidates: %s" % sorted(cand & need),
              "script end candidates lack %s: the last script of such an entry is read past its end" % sorted(need - cand))
    # ---------------- R-TERMINAL: an end marker that a real instruction can also look like must not end the script by itself
    rep.rule("R-TERMINAL", "an instruction format whose end-of-script marker is all zero bytes (indistinguishable from `ins_0()` at time 0 without "
                           "arguments) reports it as MaybeTerminal, so that the script reader ends the script only at the expected end offset; "
                           "Terminal is reserved for markers with a non-zero sentinel field")
    n_fmt = 0
    for im in db.impls:
        if im["trait"] != "llir::InstrFormat" or im["self"].startswith("llir::Test"):
            continue
        w = r = None
        for it in im["items"]:
            if it["n"] == "write_terminal_instr":
                w = db.fns.get(it["id"])
            if it["n"] == "read_instr":
                r = db.fns.get(it["id"])
        if w is None or r is None:
            continue
        consts = []
        nonconst = 0
        for _, t in w.calls():
            if re.match(r"^io::BinWrite::write_(u8|i8|u16|i16|u32|i32|f32)$", t.get("f", "")):
                o = t["a"][1] if len(t["a"]) > 1 else {}
                if "iv" in o:
                    consts.append(o["iv"])
                else:
                    nonconst += 1
        if not consts and not nonconst:
            continue          # this format has no terminal instruction
        n_fmt += 1
        rep.fn(w)
        rep.fn(r)
        ctors = set()
        for g in [r] + list(db.children.get(r.id, [])):
            for b in g.blocks:
                for st in b["s"]:
                    if st["r"] == "agg" and (st.get("adt") or "").startswith("llir::ReadInstr::"):
                        ctors.add(st["adt"].rsplit("::", 1)[-1])
        all_zero = nonconst == 0 and all(c == 0 for c in consts)
        if all_zero:
            ok = "Terminal" not in ctors and "MaybeTerminal" in ctors
            rep.check(ok, "R-TERMINAL", "%s|zero marker -> MaybeTerminal" % im["self"], r.loc, "the all-zero marker is reported as MaybeTerminal",
                      "the end marker of %s is all zero bytes, but read_instr returns %s: a real `ins_0()` at time 0 in the middle of a script ends it, and everything after it is lost without a warning" % (im["self"], sorted(ctors)))
        else:
            ok = "Terminal" in ctors or "MaybeTerminal" in ctors
            rep.check(ok, "R-TERMINAL", "%s|sentinel marker recognised" % im["self"], r.loc, "marker with sentinel %s is recognised (%s)" % ([c for c in consts if c != 0][:2], sorted(ctors & {"Terminal", "MaybeTerminal"})),
                      "%s writes an end marker but read_instr never reports one" % im["self"])
    rep.floor("instruction formats with an end marker", n_fmt, 7)

    # the round trip goes through block recovery, printing, argument / string codecs, time labels and difficulty labels:
    # the structural clauses of those properties are necessary conditions of this one
    from props import c07, c08, c12, c13, c14, c15
    rep.absorb(c07.run(db, tier), why="loops / if-else / break are recovered only when the reconstruction is exact")
    rep.absorb(c08.run(db, tier), why="the decompiled text must parse back to the same script")
    rep.absorb(c12.run(db, tier), why="argument decoding and encoding must be inverse")
    rep.absorb(c13.run(db, tier), why="emitted time labels must reproduce the stored times")
    rep.absorb(c14.run(db, tier), rules=("R-FLAG-DEF", "R-BITS", "R-LABEL-CODEC", "R-CONTIG"), why="difficulty labels must parse back to the stored mask")
    rep.absorb(c15.run(db, tier), why="string arguments must survive decode + print + parse + encode")
    return rep


def _lets(node):
    for n in hir_walk(node):
        for s in n.get("ss", []) if isinstance(n, dict) else []:
            if s.get("k") == "Let":
                yield s
