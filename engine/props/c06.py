"""C06 Turning blocks into labels and jumps preserves behaviour (structural clauses: what the desugarer emits)."""
import re
from common import Report, Broken
from facts import hir_walk
from rules import symeval as S
from rules import arms, flow

EXPLANATION = (
    "Symbolic evaluation of the HIR of passes::desugar_blocks (rules/symeval.py; nothing is executed): "
    "Desugarer::desugar_block is interpreted over symbolic terms with its helpers and callbacks inlined, every push onto "
    "`self.out` is an emission event, every undecidable branch forks the path.  The resulting function "
    "(statement kind, remaining conditions) -> emitted statement sequence is compared, as a total function over the "
    "condition atoms, with the reference translation scheme of each structured statement (R-DESUGAR-SHAPE): "
    "`loop` = L: body goto L; `do..while` = L: body if(c) goto L; `while` = unless(c) goto S; L: body if(c) goto L; S:; "
    "`times` = v = n; [if (v == 0) goto Z unless n is a non-zero constant]; L: body; if (--v [> 0]) goto L; Z: "
    "(with declaration and scope end of a fresh counter when none is named); if/else-if/else = per block "
    "negate(kw)(c) goto S_i; body; [goto E unless last and no else]; S_i: ... else-body; E:; nested blocks are "
    "flattened; every other statement is passed through; every emitted statement carries the difficulty label in force "
    "and label identities (fresh symbols) are matched up to renaming.  R-BREAK-GOTO: `break` becomes a goto to the label "
    "named after the jump's own loop id, a label with the same name function of the loop's id is inserted directly after "
    "every loop statement (back to front), and the conversion recurses.  R-LOOP-ID: ids are assigned/entered/left in "
    "matching pairs by the canonical walker for all four loop forms, `break` receives the innermost id of its function.  "
    "R-PASS-ORDER: scope ends and break conversion run before the block rewrite.  Decides the emitted scheme, not the "
    "trace equivalence of concrete programs (script time is assigned by passes::semantics::time_and_difficulty: see C13).")
RULE = "instance = one (statement kind, condition assignment) row of the emission function, or one pairing/order obligation"

DB_ = "passes::desugar_blocks::"
DES = DB_ + "Desugarer::<'_, '_>::"
BCV = "<passes::desugar_blocks::BreakContinueToGotoVisitor<'_> as ast::mut_::VisitMut>::"


# ------------------------------------------------------------------ reference scheme (the spec), written with aliases
def stmt(kind, dl="DL"):
    return "emit ast::Stmt{diff_label: %s, kind: %s}" % (dl, kind)


def label(l):
    return stmt("StmtKind::Label{0: %s}" % l)


def goto(l):
    return stmt("StmtKind::Jump{0: StmtJumpKind::Goto{0: ast::StmtGoto{destination: %s, time: None}}}" % l)


def condgoto(kw, cond, l, dl="DL"):
    return stmt("StmtKind::CondJump{cond: %s, jump: StmtJumpKind::Goto{0: ast::StmtGoto{destination: %s, time: None}}, keyword: %s}" % (cond, l, kw), dl)


def body(b):
    return "recurse desugar_block(DL, %s)" % b


IF = "CondKeyword::If"


def number(events):
    """replace <tag:NAME> placeholders by tag#n in order of first occurrence (fresh symbols are compared up to renaming)"""
    mp = {}
    out = []
    for e in events:
        def rep_(m):
            key = m.group(2)
            if key not in mp:
                mp[key] = len(mp)
            return "%s#%d" % (m.group(1), mp[key])
        out.append(re.sub(r"<([^:<>]+):([A-Za-z0-9_]+)>", rep_, e))
    return tuple(out)


def times_rows():
    rows = []
    for named in (True, False):
      for c_none in (True, False):
        for c_zero in (True, False):
            zero_test = c_none or c_zero          # no zero test only for a constant count that is not 0
            for jk in ("PredecNeZero", "PredecGtZero"):
                if named:
                    var = "STMT.kind.clobber.Some.0"
                    pre, post = [], []
                else:
                    var = "ast::Var{name: new_non_reg(attach_fresh_res(self.ctx.resolutions, <count:C>)), ty_sigil: None}"
                    pre = [stmt("StmtKind::Declaration{ty_keyword: quote::KeywordInt, vars: vec((%s, None))}" % var)]
                    post = [stmt("StmtKind::ScopeEnd{0: define_local(self.ctx, attach_fresh_res(self.ctx.resolutions, <count:C>), ScalarType::Int)}")]
                dec = "Expr::XcrementOp{op: XcrementOpKind::Dec, order: XcrementOpOrder::Pre, var: %s}" % var
                cond = dec if jk == "PredecNeZero" else "Expr::BinOp{0: %s, 1: BinOpKind::Gt, 2: int_of_ty(0, ScalarType::Int)}" % dec
                evs = pre + [stmt("StmtKind::Assignment{op: AssignOpKind::Assign, value: STMT.kind.count, var: %s}" % var)]
                if zero_test:
                    evs.append(condgoto(IF, "Expr::BinOp{0: %s, 1: BinOpKind::Eq, 2: 0}" % var, "<@times_zero#:Z>"))
                evs += [label("<@loop#:L>"), body("STMT.kind.block"), condgoto(IF, cond, "<@loop#:L>"), label("<@times_zero#:Z>")] + post
                rows.append(({"KIND": "Times", "is_none(STMT.kind.clobber)": not named,
                              "is_none(as_const_int(STMT.kind.count))": c_none,
                              "(as_const_int(STMT.kind.count).Some.0 == 0)": c_zero,
                              "match self.preferred_count_jmp": jk}, number(evs)))
    return rows


def cond_chain_inner():
    last = "(CB.0 == (len(STMT.kind.CondChain.0.cond_blocks) - 1))"
    noelse = "is_none(STMT.kind.CondChain.0.else_block)"
    head = [condgoto("negate(CB.1.keyword)", "CB.1.cond", "<@cond#:S>", dl="None"), body("CB.1.block")]
    rows = []
    for is_last in (True, False):
        for no_else in (True, False):
            evs = list(head)
            if not (is_last and no_else):
                evs.append(goto("<@cond_veryend#:E>"))
            evs.append(label("<@cond#:S>"))
            rows.append(({last: is_last, noelse: no_else}, number(evs)))
    return rows


def reference_rows(inner_render):
    rows = [
        ({"KIND": "Block"}, number([body("STMT.kind.Block.0")])),
        ({"KIND": "Loop"}, number([label("<@loop#:L>"), body("STMT.kind.block"), goto("<@loop#:L>")])),
        ({"KIND": "While{do_keyword:Some}"}, number([label("<@loop#:L>"), body("STMT.kind.block"), condgoto(IF, "STMT.kind.cond", "<@loop#:L>")])),
        ({"KIND": "While{do_keyword:None}"}, number([condgoto("negate(%s)" % IF, "STMT.kind.cond", "<@cond#:S>", dl="None"), label("<@loop#:L>"),
                                                     body("STMT.kind.block"), condgoto(IF, "STMT.kind.cond", "<@loop#:L>"), label("<@cond#:S>")])),
        ({"KIND": "_"}, ("emit STMT{diff_label := DL}",)),
    ]
    rows += times_rows()
    for no_else in (True, False):
        evs = ["LOOP-CB"]
        if not no_else:
            evs.append(body("STMT.kind.CondChain.0.else_block.Some.0"))
        evs.append(label("<@cond_veryend#:E>"))
        rows.append(({"KIND": "CondChain(StmtCondChain)", "is_none(STMT.kind.CondChain.0.else_block)": no_else}, number(evs)))
    return rows


KIND_RE = re.compile(r"match STMT\.kind \{[^{}]*(?:\{[^{}]*\}[^{}]*)*\}")


def norm_key(k):
    k = KIND_RE.sub("KIND", k)
    k = re.sub(r"^(match self\.preferred_count_jmp) \{.*\}$", r"\1", k)
    return k


def run(db, tier):
    rep = Report("C06", tier, EXPLANATION, RULE)
    rep.rule("R-DESUGAR-SHAPE", "each structured statement is rewritten into exactly the label/jump scheme that defines it (fresh labels up to renaming, "
                                "conditions as a total function over the condition atoms)")
    rep.rule("R-BREAK-GOTO", "`break` jumps to the label that is inserted directly after its own loop")
    rep.rule("R-LOOP-ID", "loop ids are assigned, entered and left in matching pairs; `break` gets the innermost enclosing loop of its function")
    rep.rule("R-PASS-ORDER", "scope ends and break conversion happen before blocks are flattened")

    # ---------------- R-DESUGAR-SHAPE
    fid = DES + "desugar_block"
    fn = db.fn(fid)
    for g in db.fns.values():
        if g.id.startswith(DES) or g.id.startswith(DB_ + "Desugarer"):
            rep.fn(g)
    cfg = S.Config(db, fid, inline_prefixes=(DB_,), sinks=("self.out",),
                   fresh_calls=("GensymContext::gensym",), recurse_to=(fid,))
    cfg.no_inline = ("get_loop_id", "Visitor", "insert_scope_ends", "convert_continue_and_break", "::run")
    ev = S.Evaluator(cfg)
    S.set_aliases([])
    res = ev.run_fn(fn)
    tops = [(st, v) for st, v in res if st.flow not in ("diverge", "error")]
    if len(tops) != 1:
        raise Broken("desugar_block: expected one top-level path (the statement loop), found %d" % len(tops))
    loops = [e for e in tops[0][0].events if e[0] == "loop"]
    others = [e for e in tops[0][0].events if e[0] != "loop"]
    rep.check(len(loops) == 1 and not others, "R-DESUGAR-SHAPE", "desugar_block|one statement loop", fn.loc,
              "desugar_block is one loop over the statements of the block and emits nothing outside it",
              "desugar_block emits statements outside its per-statement loop, or has %d loops" % len(loops))
    if len(loops) != 1:
        return rep
    it = loops[0][1]
    STMT = "each(%s)" % it
    rep.check(it.startswith("drain(outer_block.0") or it.startswith("into_iter(outer_block.0") or it == "outer_block.0", "R-DESUGAR-SHAPE",
              "desugar_block|all statements in order", fn.loc, "iterates %s" % it,
              "the statement loop iterates `%s`, not every statement of the block in order" % it)
    dl_raw = "filter(or(%s.diff_label, outer_diff_label), |label|((label.mask != Some(DEFAULT_DIFFICULTY_MASK))))" % STMT
    S.set_aliases([(dl_raw, "DL"), (STMT, "STMT"),
                   ("each(enumerate(into_iter(%s.kind.CondChain.0.cond_blocks)))" % STMT, "CB"),
                   ("each(enumerate(into_iter(STMT.kind.CondChain.0.cond_blocks)))", "CB")])
    try:
        paths = []
        inner_tables = []
        for conds, events, fl in loops[0][2]:
            evs2 = []
            for e in events:
                if e[0] == "loop" and "cond_blocks" in e[1]:
                    inner_tables.append(e[2])
                    evs2.append(("effect", "LOOP-CB", ()))
                else:
                    evs2.append(e)
            paths.append((tuple((norm_key(S.alias(k)), v, d) for k, v, d in conds), tuple(evs2), fl))
        # events were renumbered per path at render time; LOOP-CB placeholder renders as `effect LOOP-CB()`
        keys, doms, tab = S.table(paths)
        actual = (keys, doms, dict((a, frozenset(tuple(x.replace("effect LOOP-CB()", "LOOP-CB") for x in evs) for evs in e)) for a, e in tab.items()))
        ref_rows = reference_rows(None)
        rdoms = {}
        for cd, _ in ref_rows:
            for k, v in cd.items():
                rdoms.setdefault(k, [])
                if v not in rdoms[k]:
                    rdoms[k].append(v)
        for k in rdoms:
            if k in doms:
                rdoms[k] = list(doms[k])
            elif all(isinstance(v, bool) for v in rdoms[k]):
                rdoms[k] = [True, False]
        rpaths = [(tuple((k, v, tuple(rdoms[k])) for k, v in cd.items()), (("raw",) + evs,), None) for cd, evs in ref_rows]
        # the reference rows are already rendered strings: build their table directly
        rkeys = sorted(rdoms)
        import itertools
        rtab = {}
        for assign in itertools.product(*[rdoms[k] for k in rkeys]):
            a = dict(zip(rkeys, assign))
            rtab[assign] = frozenset(evs for cd, evs in ref_rows if all(a[k] == v for k, v in cd.items()))
        reference = (rkeys, dict((k, tuple(rdoms[k])) for k in rkeys), rtab)
        # arms the reference does not describe (new statement kinds) are reported, not judged
        kind_vals = list(doms.get("KIND", ()))
        known = set(rdoms.get("KIND", []))
        extra = [v for v in kind_vals if v not in known]
        missing = [v for v in known if v not in kind_vals]
        rep.check(not missing, "R-DESUGAR-SHAPE", "desugar_block|statement kinds", fn.loc,
                  "desugar_block distinguishes %s" % ", ".join(sorted(known)),
                  "desugar_block no longer has a separate case for %s" % ", ".join(sorted(missing)))
        if extra:
            rep.note("desugar_block has cases the reference scheme does not describe (not judged): %s" % ", ".join(extra))
        diffs = S.compare_tables(actual, reference)
        diffs = [d for d in diffs if not any(("KIND -> %s" % x) in d[0] for x in extra)]
        bykind = {}
        for where, ea, eb in diffs:
            m = re.search(r"KIND -> ([^&]+?)(?: &|$)", where)
            bykind.setdefault(m.group(1).strip() if m else "?", []).append((where, ea, eb))
        n_rows = 0
        for kv in sorted(known):
            rows_k = [a for a in reference[2] if dict(zip(rkeys, a)).get("KIND") == kv]
            n_rows += len(rows_k)
            bad = bykind.get(kv)
            key = "desugar_block|%s" % kv
            if not bad:
                rep.ok("R-DESUGAR-SHAPE", key, fn.loc, "emits the reference scheme under all %d condition assignments" % len(rows_k))
            else:
                where, ea, eb = bad[0]
                rep.bad("R-DESUGAR-SHAPE", key, fn.loc,
                        "under [%s] the desugarer emits %s but the construct is defined as %s (%d differing assignments)" % (
                            where, " | ".join(" ; ".join(x) for x in sorted(ea)) or "<nothing>",
                            " | ".join(" ; ".join(x) for x in sorted(eb)) or "<nothing>", len(bad)))
        rep.extra["desugar_rows_compared"] = n_rows
        rep.floor("condition assignments compared", n_rows, 14)
        # the per-block loop of if/else chains
        rep.check(len(inner_tables) >= 1, "R-DESUGAR-SHAPE", "CondChain|per-block loop", fn.loc, "the chain is translated block by block, in order",
                  "the if/else chain is no longer translated by one loop over its cond_blocks")
        ref_inner = cond_chain_inner()
        for sub in inner_tables[:1]:
            ipaths = [(tuple((norm_key(S.alias(k)), v, d) for k, v, d in c), e, f) for c, e, f in sub]
            ik, idoms, itab = S.table(ipaths)
            rk = sorted(set(k for cd, _ in ref_inner for k in cd))
            rt = {}
            for assign in itertools.product(*[(True, False) for _ in rk]):
                a = dict(zip(rk, assign))
                rt[assign] = frozenset(evs for cd, evs in ref_inner if all(a[k] == v for k, v in cd.items()))
            d2 = S.compare_tables((ik, idoms, itab), (rk, dict((k, (True, False)) for k in rk), rt))
            if not d2:
                rep.ok("R-DESUGAR-SHAPE", "CondChain|block scheme", fn.loc, "negate(kw) cond goto skip; body; [goto end unless last and no else]; skip:")
            else:
                where, ea, eb = d2[0]
                rep.bad("R-DESUGAR-SHAPE", "CondChain|block scheme", fn.loc,
                        "for one block of an if/else chain under [%s] the desugarer emits %s but the scheme is %s" % (
                            where, " | ".join(" ; ".join(x) for x in sorted(ea)) or "<nothing>", " | ".join(" ; ".join(x) for x in sorted(eb)) or "<nothing>"))
        # the Visitor hands every block (including those of nested functions) to a fresh Desugarer
        vb = db.fn("<passes::desugar_blocks::Visitor<'_, '_> as ast::mut_::VisitMut>::visit_block")
        rep.fn(vb)
        calls = [t.get("f") for _, t in vb.calls()]
        rep.check(fid in calls and "ast::mut_::walk_block" in calls, "R-DESUGAR-SHAPE", "Visitor::visit_block|desugar then recurse", vb.loc,
                  "every block is desugared and nested function bodies are visited", "Visitor::visit_block no longer calls desugar_block and walk_block_mut")
    finally:
        S.set_aliases([])

    # ---------------- R-BREAK-GOTO
    vj = db.fn(BCV + "visit_jump")
    vbk = db.fn(BCV + "visit_block")
    rep.fn(vj)
    rep.fn(vbk)
    name_fn = DB_ + "BreakContinueToGotoVisitor::<'_>::loop_end_label_name"
    rep.fn(db.fn(name_fn))
    cfgj = S.Config(db, vj.id, inline_exact=(name_fn,), sinks=(), fresh_calls=("UnusedIds::<T>::next",))
    rj = [(st, v) for st, v in S.Evaluator(cfgj).run_fn(vj) if st.flow not in ("diverge", "error")]
    stores = []
    for st, _ in rj:
        for e in st.events:
            if e[0] == "store" and e[1] == "*jump":
                stores.append((st, e))
    ok = len(stores) == 1
    name_of_jump = None
    why = "visit_jump has %d stores to *jump" % len(stores)
    if ok:
        st, e = stores[0]
        txt = S.render(e[2])
        conds = dict((k, v) for k, v, _ in st.conds)
        m = re.match(r"^StmtJumpKind::Goto\{0: ast::StmtGoto\{destination: (.*), time: None\}\}$", txt)
        ok = m is not None
        why = "the replacement is %s" % txt
        if ok:
            name_of_jump = m.group(1)
            ok = "jump.loop_id" in name_of_jump and "Break" in " ".join(k for k, v in conds.items() if v is True)
            why = "break is replaced under %s by a goto to %s" % (conds, name_of_jump)
    rep.check(ok, "R-BREAK-GOTO", "visit_jump|break -> goto name(own loop id), no time", vj.loc,
              "`break` becomes `goto <name(jump.loop_id)>` without a time argument", why)
    cfgb = S.Config(db, vbk.id, inline_exact=(name_fn,), sinks=("block.0",), fresh_calls=("UnusedIds::<T>::next",), effect_calls=("mut_::walk_block",))
    rb = [(st, v) for st, v in S.Evaluator(cfgb).run_fn(vbk) if st.flow not in ("diverge", "error")]
    ok = len(rb) == 1
    why = "visit_block has %d paths" % len(rb)
    if ok:
        evs = rb[0][0].events
        lp = [e for e in evs if e[0] == "loop"]
        rec = [i for i, e in enumerate(evs) if e[0] == "effect" and e[1] == "walk_block"]
        ok = len(lp) == 1 and len(rec) == 1
        why = "expected one insertion loop and one recursion, found %d / %d" % (len(lp), len(rec))
        if ok:
            itr = lp[0][1]
            subs = [x for x in lp[0][2] if x[2] not in ("diverge", "error")]
            ins = [e for c, es, f in subs for e in es if e[0] == "emit"]
            ok = len(subs) == 1 and len(ins) == 1 and len(ins[0]) == 3
            why = "the loop body inserts %d statements on %d paths" % (len(ins), len(subs))
            if ok:
                idx, what = S.render(ins[0][1]), S.render(ins[0][2])
                each = "each(%s)" % itr
                m = re.match(r"^ast::Stmt\{diff_label: None, kind: StmtKind::Label\{0: (.*)\}\}$", what)
                checks = {
                    "the label goes directly after the loop statement (index + 1)": idx == "(%s.0 + 1)" % each,
                    "the inserted statement is a plain label": m is not None,
                    "insertion runs back to front (rev) over every loop statement found by get_loop_id": "rev(" in itr and "get_loop_id" in itr and "enumerate(iter(block.0))" in itr,
                    "the label is named by the same function of the loop's id as the goto of `break`":
                        m is not None and name_of_jump is not None and m.group(1).replace("%s.1" % each, "ID") == name_of_jump.replace('expect(jump.loop_id, "missing loop ID")', "ID"),
                }
                badc = [k for k, v in checks.items() if not v]
                ok = not badc
                why = "; ".join("NOT: " + k for k in badc) + " [index=%s, stmt=%s, over=%s]" % (idx, what, itr)
    rep.check(ok, "R-BREAK-GOTO", "visit_block|label after each loop", vbk.loc,
              "a label named after the loop's id is inserted directly after every loop statement, back to front, then the pass recurses", why)
    gl = db.fn(DB_ + "<impl ast::Stmt>::get_loop_id")
    rep.fn(gl)
    vle = db.fn("<passes::desugar_blocks::<impl ast::Stmt>::get_loop_id::GetStmtLoopIdVisitor as ast::ref_::Visit>::visit_loop_end")
    dummies = [g for g in db.fns.values() if g.id.startswith("<passes::desugar_blocks::<impl ast::Stmt>::get_loop_id::GetStmtLoopIdVisitor as ast::ref_::Visit>::visit_")]
    rep.check(len(dummies) >= 5, "R-BREAK-GOTO", "get_loop_id|does not look into children", gl.loc,
              "the loop-id probe overrides visit_block/visit_expr/visit_item so that only the statement itself is inspected",
              "get_loop_id's visitor no longer stubs out visit_block / visit_expr / visit_item: a loop nested inside a non-loop statement would be mistaken for the statement")

    # ---------------- R-LOOP-ID
    for walker, wname in (("ast::ref_::walk_stmt", "walk_stmt"), ("ast::mut_::walk_stmt", "walk_stmt_mut")):
        w = db.fn(walker)
        rep.fn(w)
        n_arms = 0
        for m_ in hir_walk(w.hir):
            if m_.get("k") != "Match":
                continue
            for arm in m_["arms"]:
                sig = " ".join(s for s in arms.pat_sig(arm["p"]) if s)
                if not re.search(r"StmtKind::(Loop|While|Times)", sig):
                    continue
                n_arms += 1
                seq = [c for c in arms.calls_in(arm["b"]) if c.endswith("::visit_loop_begin") or c.endswith("::visit_block") or c.endswith("::visit_loop_end")]
                names = [c.rsplit("::", 1)[-1] for c in seq]
                kind = re.search(r"StmtKind::(\w+)", sig).group(1)
                rep.check(names == ["visit_loop_begin", "visit_block", "visit_loop_end"], "R-LOOP-ID", "%s|%s|%d begin-body-end" % (wname, kind, n_arms),
                          "%s:%d" % (w.file, arm["ln"]), "the loop body is visited between visit_loop_begin and visit_loop_end",
                          "%s visits a %s loop as %s: the body is not bracketed by loop begin/end (break inside it resolves to the wrong loop)" % (wname, kind, names))
        rep.floor("%s loop arms" % wname, n_arms, 4)
    AV = "<passes::resolution::AssignLoopIdsVisitor<'_, '_> as ast::mut_::VisitMut>::"
    lb, le, vjmp, vrb = db.fn(AV + "visit_loop_begin"), db.fn(AV + "visit_loop_end"), db.fn(AV + "visit_jump"), db.fn(AV + "visit_root_block")
    for g in (lb, le, vjmp, vrb):
        rep.fn(g)
    c_lb = [t.get("f", "") for _, t in lb.calls()]
    rep.check(any(c.endswith("next_loop_id") for c in c_lb) and any(c.endswith("LexicalLoopTracker::enter_loop") for c in c_lb), "R-LOOP-ID",
              "assign|begin: fresh id, entered", lb.loc, "a fresh id is stored on the loop and pushed", "visit_loop_begin does not take a fresh id and enter it")
    cfgl = S.Config(db, lb.id, inline_exact=(), effect_calls=("LexicalLoopTracker::enter_loop",))
    rl = [(st, v) for st, v in S.Evaluator(cfgl).run_fn(lb) if st.flow not in ("diverge", "error")]
    same = False
    if len(rl) == 1:
        st = rl[0][0]
        stv = [S.render(e[2]) for e in st.events if e[0] == "store" and e[1] == "*loop_id"]
        env_ = [S.render(e[2][-1]) for e in st.events if e[0] == "effect"]
        same = len(stv) == 1 and len(env_) == 1 and stv[0] == "Some(%s)" % env_[0]
    rep.check(same, "R-LOOP-ID", "assign|begin: stored id == entered id", lb.loc, "the id stored on the loop is the id pushed on the tracker",
              "visit_loop_begin stores one id on the loop and enters another")
    rep.check(any(t.get("f", "").endswith("LexicalLoopTracker::exit_loop") for _, t in le.calls()), "R-LOOP-ID", "assign|end: left", le.loc,
              "the loop is popped at its end", "visit_loop_end does not pop the loop")
    cfgv = S.Config(db, vjmp.id, inline_exact=(), effect_calls=())
    rv = [(st, v) for st, v in S.Evaluator(cfgv).run_fn(vjmp) if st.flow not in ("diverge", "error")]
    st_ok = False
    for st, _ in rv:
        for e in st.events:
            if e[0] == "store" and "loop_id" in e[1]:
                st_ok = S.render(e[2]).startswith("Some(") and "current_loop(self.loop_tracker)" in S.render(e[2])
    rep.check(st_ok, "R-LOOP-ID", "assign|break gets current_loop()", vjmp.loc, "break/continue receive LexicalLoopTracker::current_loop()",
              "visit_jump does not store the tracker's current loop on break/continue")
    T = "passes::resolution::LexicalLoopTracker::"
    cur, ent, ext = db.fn(T + "current_loop"), db.fn(T + "enter_loop"), db.fn(T + "exit_loop")
    cs, cst = db.fn(T + "cur_stack"), db.fn(T + "cur_stack_mut")
    for g in (cur, ent, ext, cs, cst):
        rep.fn(g)
    def cl(g):
        return [t.get("f", "") for _, t in g.calls()]
    rep.check(any(c.endswith("<impl [T]>::last") for c in cl(cur)) and not any(c.endswith("<impl [T]>::first") for c in cl(cur)), "R-LOOP-ID",
              "tracker|current = innermost", cur.loc, "current_loop is the last (innermost) entry", "current_loop does not return the last entry of the loop stack")
    rep.check(any(c.endswith("Vec::<T, A>::push") for c in cl(ent)) and any(c.endswith("Vec::<T, A>::pop") for c in cl(ext)), "R-LOOP-ID",
              "tracker|push/pop", ent.loc, "enter pushes, exit pops", "enter_loop/exit_loop are not push/pop on the same stack")
    rep.check(all(any(c.endswith("<impl [T]>::last") or c.endswith("<impl [T]>::last_mut") for c in cl(g)) for g in (cs, cst)), "R-LOOP-ID",
              "tracker|per-function stack", cs.loc, "loops are tracked on the stack of the innermost function", "cur_stack does not use the innermost function's stack")
    c_rb = cl(vrb)
    rep.check(any(c.endswith("enter_function") for c in c_rb) and any(c.endswith("exit_function") for c in c_rb), "R-LOOP-ID", "assign|function boundary", vrb.loc,
              "a function body starts an empty loop stack", "visit_root_block does not bracket the body with enter_function/exit_function")

    # ---------------- R-PASS-ORDER
    run_ = db.fn(DB_ + "run")
    rep.fn(run_)
    cfgr = S.Config(db, run_.id, inline_exact=(), effect_calls=("insert_scope_ends", "convert_continue_and_break", "visit_mut_with", "fill_missing_node_ids"))
    rr = [(st, v) for st, v in S.Evaluator(cfgr).run_fn(run_) if st.flow not in ("diverge", "error")]
    seqs = set(tuple(e[1] for e in st.events if e[0] == "effect") for st, _ in rr)
    want = ("insert_scope_ends", "convert_continue_and_break", "visit_mut_with", "fill_missing_node_ids")
    rep.check(seqs == {want}, "R-PASS-ORDER", "run|order", run_.loc, " -> ".join(want),
              "desugar_blocks::run performs %s; break conversion and scope ends must precede the flattening (loops are unrecognisable afterwards)" % sorted(seqs))
    for helper, vis in (("insert_scope_ends", "InsertLocalScopeEndsVisitor"), ("convert_continue_and_break", "BreakContinueToGotoVisitor")):
        h = db.fn(DB_ + helper)
        rep.fn(h)
        ok = any("visit_mut_with" in (t.get("f") or "") and vis in " ".join(t.get("ga", [])) for _, t in h.calls())
        rep.check(ok, "R-PASS-ORDER", "%s|runs %s" % (helper, vis), h.loc, "%s applies %s to the whole tree" % (helper, vis), "%s no longer runs %s" % (helper, vis))
    return rep
