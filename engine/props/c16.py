"""C16 Any binary input ends in success or a diagnostic, never a crash (structural clauses)."""
import json
import os
import re
from common import Report, VERIF
from facts import op_local, op_place, place_local, place_proj
from rules import flow, codec

EXPLANATION = (
    "Static census over the reader layer: every function that takes an io::BinReader (all formats' read_* functions, "
    "all InstrFormat::read_instr), llir::read_instrs, llir::raise::early (argument decoding, jump-target labels), the "
    "decode_label hooks, image::color and anm::image_io (extraction).  R-PANIC-BIN: every explicit panic site there "
    "(panic!/assert!/assert_eq!/unreachable!, Option/Result unwrap/expect) must be an audited (function, kind, count) "
    "entry whose operand cannot depend on file bytes.  R-ARITH-BIN: every panicking arithmetic / bounds Assert there "
    "(all integer widths, constants discharged) must be an audited entry with its bound.  R-ALLOC-BIN: allocations "
    "sized by a non-constant value (vec![_; n], with_capacity, resize, repeat) are audited.  R-SIZE: every "
    "read_instr derives the argument size with checked arithmetic (no plain subtraction of the header size) and "
    "read_byte_vec does not pre-allocate a file-controlled length.  R-JUMP: jump targets are validated "
    "(binary_search + error) before labels are generated.  Decides these code-shape conditions for the reader layer; "
    "hangs, memory exhaustion in later passes and panics behind AST invariants of the decompile passes are NOT decided.")
RULE = "instance = one panic site / arithmetic Assert / sized allocation in the reader layer, or one read_instr size derivation"

SCOPE = re.compile(r"^<?(llir::raise::early::|image::color::|formats::anm::image_io::|io::BinRead::|llir::read_instrs)|decode_label$|::read_instr$")
PANIC = re.compile(r"^(core::panicking::|std::rt::begin_panic|core::option::Option::<T>::(unwrap|expect)$|core::result::Result::<T, E>::(unwrap|expect)$)")
ALLOC = re.compile(r"^(alloc::vec::from_elem|alloc::vec::Vec::<T>::with_capacity|alloc::vec::Vec::<T, A>::resize|alloc::vec::Vec::<T, A>::reserve|alloc::slice::<impl \[T\]>::repeat|alloc::string::String::with_capacity)")


def root_fn(fid):
    return re.sub(r"(::\{closure#\d+\})+$", "", fid)


def is_reader(f):
    for i in range(1, f.mir["argc"] + 1):
        if "io::BinReader" in f.local_ty(i):
            return True
    return False


def scope_fns(db):
    out = []
    for f in db.fns.values():
        if f.gen or f.id.startswith("<llir::Test") or "SimpleInstrReader" in f.id or "::tests::" in f.id:
            continue
        p = db.fns.get(f.parent) if f.parent else None
        if is_reader(f) or (p is not None and is_reader(p)) or SCOPE.search(f.id) or (f.parent and SCOPE.search(f.parent)):
            out.append(f)
    return out


def kind_of(t):
    c = t.get("f", "")
    x = (t.get("x") or "").split(">")[-1]
    if c.startswith("core::panicking::") or c.startswith("std::rt::"):
        return x or c.rsplit("::", 1)[-1]
    return c.rsplit("::", 1)[-1]


PASS_THROUGH = re.compile(r"(ops::try_trait::Try::branch|convert::(From::from|Into::into|TryFrom::try_from|TryInto::try_into)|"
                          r"(option::Option|result::Result)::<[^>]*>::(unwrap|expect|unwrap_or|unwrap_or_default)|clone::Clone::clone|"
                          r"num::<impl [a-z0-9]+>::(wrapping_|saturating_|checked_)?(add|sub|mul)|cmp::(max|min|Ord::max|Ord::min))$")


def _value_sources(f, d, operand, limit=200):
    """provenance of a value through copies, casts, arithmetic and value-preserving calls only (`?`, into, unwrap, ...):
    the result of any other call is a source of its own, its arguments are not followed"""
    out = set()
    seen = set()
    work = [operand]
    n = 0
    while work and n < limit:
        n += 1
        o = work.pop()
        for s_ in d._op_sources(o, 0, set(), True):
            out.add(s_)
            if s_[0] == "call" and isinstance(s_[2], int) and s_[2] not in seen and PASS_THROUGH.search(s_[1] or ""):
                seen.add(s_[2])
                for a in f.blocks[s_[2]]["t"].get("a", []):
                    work.append(a)
    return out


def run(db, tier):
    rep = Report("C16", tier, EXPLANATION, RULE)
    rep.rule("R-PANIC-BIN", "explicit panic sites in the reader layer are audited and independent of file bytes")
    rep.rule("R-ARITH-BIN", "panicking arithmetic / bounds checks in the reader layer are audited with their bound")
    rep.rule("R-ALLOC-BIN", "allocations sized by a run-time value in the reader layer are audited")
    rep.rule("R-SIZE", "instruction argument sizes are derived with checked arithmetic; read_byte_vec does not pre-allocate")
    rep.rule("R-JUMP", "jump targets are validated before label lookup")
    fs = scope_fns(db)
    rep.floor("reader-layer functions", len(fs), 200)
    for f in fs:
        rep.fn(f)
    ptab = json.load(open(os.path.join(VERIF, "engine", "tables", "c16_panic.json")))["entries"]
    atab = json.load(open(os.path.join(VERIF, "engine", "tables", "c16_arith.json")))["entries"]
    ltab = json.load(open(os.path.join(VERIF, "engine", "tables", "c16_alloc.json")))["entries"]

    n_p = n_a = n_l = 0
    cnt_p, cnt_a, cnt_l = {}, {}, {}     # per ROOT function: closures are attributed to the containing function
    for f in sorted(fs, key=lambda f: (root_fn(f.id), f.file, f.line, f.id)):
        rid = root_fn(f.id)
        # ---- explicit panics
        cnt = cnt_p.setdefault(rid, {})
        for bi, t in f.calls():
            c = t.get("f", "")
            if not PANIC.match(c) or f.blocks[bi].get("cleanup"):
                continue
            n_p += 1
            rep.site()
            k = kind_of(t)
            cnt[k] = cnt.get(k, 0) + 1
            key = "%s|%s|%d" % (rid, k, cnt[k])
            loc = "%s:%d" % (f.file, t["ln"])
            ent = ptab.get(rid)
            if ent and cnt[k] <= ent.get("allow", {}).get(k, 0):
                rep.ok("R-PANIC-BIN", key, loc, "%s: audited: %s" % (k, ent["reason"]))
            else:
                rep.bad("R-PANIC-BIN", key, loc, "%s in a function that handles file bytes, not covered by the audit (%s)" % (
                    k, "audit allows %d" % ent.get("allow", {}).get(k, 0) if ent else "function not audited"))
        # ---- arithmetic
        cnt = cnt_a.setdefault(rid, {})
        for b in f.blocks:
            t = b["t"]
            if t["k"] != "assert" or b.get("cleanup"):
                continue
            m = t["msg"]
            if not (m.startswith("overflow") or "zero" in m or m == "bounds"):
                continue
            ops = t["ops"]
            if m in ("overflow:Shl", "overflow:Shr") and len(ops) > 1 and "iv" in ops[1]:
                continue
            if m in ("remzero", "divzero") and "iv" in ops[0] and ops[0]["iv"] != 0:
                continue
            if all("iv" in o for o in ops):
                continue
            n_a += 1
            rep.site()
            cnt[m] = cnt.get(m, 0) + 1
            key = "%s|%s|%d" % (rid, m, cnt[m])
            loc = "%s:%d" % (f.file, t["ln"])
            ent = atab.get(rid)
            if ent and cnt[m] <= ent.get("allow", {}).get(m, 0):
                rep.ok("R-ARITH-BIN", key, loc, "%s: audited: %s" % (m, ent["reason"]))
            else:
                rep.bad("R-ARITH-BIN", key, loc, "panicking %s in a function that handles file bytes, not covered by the audit (%s)" % (
                    m, "audit allows %d" % ent.get("allow", {}).get(m, 0) if ent else "function not audited"))
        # ---- allocations
        cnt = cnt_l.setdefault(rid, {})
        for bi, t in f.calls():
            c = t.get("f", "")
            if not ALLOC.match(c):
                continue
            # size operand: last argument for from_elem/resize(len), first for with_capacity
            name = c.rsplit("::", 1)[-1]
            idx = {"from_elem": 1, "with_capacity": 0, "resize": 1, "reserve": 1, "repeat": 1}.get(name, 0)
            if idx >= len(t["a"]):
                continue
            o = t["a"][idx]
            if "iv" in o or "c" in o:
                continue
            n_l += 1
            cnt[name] = cnt.get(name, 0) + 1
            key = "%s|%s|%d" % (rid, name, cnt[name])
            loc = "%s:%d" % (f.file, t["ln"])
            ent = ltab.get(rid)
            if ent and cnt[name] <= ent.get("allow", {}).get(name, 0):
                rep.ok("R-ALLOC-BIN", key, loc, "%s: audited: %s" % (name, ent["reason"]))
            else:
                rep.bad("R-ALLOC-BIN", key, loc, "%s with a run-time size in a function that handles file bytes, not covered by the audit" % name)
    rep.floor("explicit panic sites in reader layer", n_p, 8)
    rep.floor("arithmetic asserts in reader layer", n_a, 60)
    rep.extra.update({"panic_sites": n_p, "arith_asserts": n_a, "sized_allocations": n_l})

    # ---- R-SIZE
    fmts = codec.instr_formats(db)
    rep.floor("InstrFormat impls", len(fmts), 9)
    for name, r, w, h in fmts:
        subs = [b["t"] for b in r.blocks if b["t"]["k"] == "assert" and b["t"]["msg"] in ("overflow:Sub",) and not b.get("cleanup")]
        casts = []
        for b in r.blocks:
            for s in b["s"]:
                if s["r"] == "cast" and s["ck"] == "IntToInt" and db.types[s["from"]] in ("i8", "i16", "i32") and db.types[s["to"]] in ("usize", "u64"):
                    casts.append(s)
        key = "%s|read_instr" % name
        why = ""
        if subs:
            why = "subtracts without checked_sub (line %d)" % subs[0]["ln"]
        elif casts:
            why = "casts a signed value read from the file to usize (line %d)" % casts[0]["ln"]
        rep.check(not subs and not casts, "R-SIZE", key, r.loc, "argument size derived without unchecked subtraction or signed->usize casts",
                  "read_instr %s: a crafted size panics" % why)
    rbv = db.fn("io::BinRead::read_byte_vec")
    pre = [t for _, t in rbv.calls() if t.get("f", "").startswith("alloc::vec::from_elem") or t.get("f", "").endswith("with_capacity")]
    rep.check(not pre, "R-SIZE", "read_byte_vec|no-preallocation", rbv.loc, "read_byte_vec reads through take(len) without allocating len up front",
              "read_byte_vec allocates the requested (file-controlled) length before reading")

    # ---- R-IMG-SIZE: pixel transcoding (which asserts len % bpp == 0 and indexes by w*h) only runs on data whose
    #      length was compared for *equality* with width*height*bpp, or for divisibility by bpp
    rep.rule("R-IMG-SIZE", "texture bytes are transcoded only after their length was checked against the pixel format")
    n_tc = 0
    for g in db.fns.values():
        if g.gen:
            continue
        for bi, t in g.calls():
            if not t.get("f", "").endswith("ColorFormat::transcode_to_argb_8888"):
                continue
            n_tc += 1
            dg = flow.Defs(g)
            ok = False
            why = "no comparison of the data length guards the transcode"
            for c in flow.guards_before(g, bi, dg):
                srcs_a, srcs_b = c["a"], c["b"]
                len_side = flow.has_call_source(srcs_a | srcs_b, "::len")
                if not len_side:
                    continue
                if c["op"] in ("Ne", "Eq"):
                    ok = True
                else:
                    why = "the data length is only compared with `%s` (line %d): data of another length still reaches the pixel decoder, which asserts len %% bytes_per_pixel == 0" % (c["op"], c["ln"])
            rep.check(ok, "R-IMG-SIZE", "%s|transcode_to_argb_8888" % g.id, "%s:%d" % (g.file, t["ln"]),
                      "length checked by equality / divisibility before transcoding", why)
    rep.floor("transcode_to_argb_8888 call sites", n_tc, 2)

    # ---- R-JUMP
    g = db.fn("llir::raise::early::generate_offset_labels")
    bs = [t for _, t in g.calls() if "binary_search" in t.get("f", "")]
    cl = [c for c in db.children.get(g.id, []) if any(tt.get("f", "").endswith("::emit") for _, tt in c.calls())]
    rep.check(bool(bs) and bool(cl), "R-JUMP", "generate_offset_labels|binary_search-or-error", g.loc,
              "jump offsets are looked up with binary_search and a miss is an emitted error", "jump offsets are no longer validated against the instruction offsets")
    # ---------------- R-PRECOND: helpers that assert a precondition on data derived from the file
    rep.rule("R-PRECOND", "a helper that asserts a precondition on file-derived data is called only where a dominating test has established it")
    bc = "llir::raise::recognize::bitmask_bits_are_contiguous"
    hb = db.fn(bc)
    rep.fn(hb)
    asserts_nonempty = any(t.get("f", "").endswith("BitSet32::is_empty") for _, t in hb.calls()) and any(PANIC.match(t.get("f", "")) for _, t in hb.calls())
    sites = []
    for g in db.fns.values():
        if g.gen:
            continue
        for bi, t in g.calls():
            if t.get("f") == bc:
                sites.append((g, bi, t))
    rep.floor("call sites of bitmask_bits_are_contiguous", len(sites), 1)
    for k_, (g, bi, t) in enumerate(sorted(sites, key=lambda x: (x[0].id, x[1]))):
        rep.fn(g)
        dg = flow.Defs(g)
        ok = not asserts_nonempty
        why = "the helper no longer asserts"
        if asserts_nonempty:
            why = "no dominating test shows the mask is non-empty"
            for gb, gt in g.calls():
                c = gt.get("f", "")
                if gb == bi:
                    continue
                if c.endswith("PartialEq::eq") or c.endswith("PartialEq::ne"):
                    sa = dg._op_sources(gt["a"][0], 0, set(), True) | dg._op_sources(gt["a"][1], 0, set(), True)
                    if flow.has_call_source(sa, "BitSet32::first") and any(x[0] == "field" and x[1] == "core::option::Option::Some" or (x[0] == "agg" and "Option::Some" in str(x[1])) for x in sa):
                        vals = flow.accepted_when(g, {"dest": place_local(gt["d"])}, bi, flow.innermost_header(g, bi))
                        want = c.endswith("::eq")
                        if vals is not None and vals == {want}:
                            ok = True
                            why = "reached only when mask.first() == Some(_)"
                elif c.endswith("BitSet32::is_empty"):
                    vals = flow.accepted_when(g, {"dest": place_local(gt["d"])}, bi, flow.innermost_header(g, bi))
                    if vals is not None and vals == {False}:
                        ok = True
                        why = "reached only when !mask.is_empty()"
        rep.check(ok, "R-PRECOND", "bitmask_bits_are_contiguous|%s|call-%d" % (g.id, k_ + 1), "%s:%d" % (g.file, t["ln"]), why,
                  "bitmask_bits_are_contiguous asserts a non-empty mask, but this call is not behind a test that the (file-supplied) difficulty mask has a bit set: " + why)

    # ---------------- R-IMM-INV: an argument whose encoding is always an immediate is never decoded as a register
    rep.rule("R-IMM-INV", "decode_args_with_abi marks an argument as a register only on paths where enc.is_always_immediate() returned false "
                          "(later passes call expect_immediate_int() on jump offsets/times and assert !is_reg)")
    da = db.fn("llir::raise::early::decode_args_with_abi")
    dd = flow.Defs(da)
    safe, res = flow.implies_not_call(da, "ArgEncoding::is_always_immediate", dd)
    n_sa = 0
    for bi, b in enumerate(da.blocks):
        for st in b["s"]:
            if st["r"] == "agg" and st.get("adt") == "llir::SimpleArg":
                n_sa += 1
                o = dict(zip(st["fn"], st["ops"])).get("is_reg")
                ok = o is not None and (("c" in o and str(o.get("c")) == "false") or op_local(o) in safe)
                rep.check(ok, "R-IMM-INV", "decode_args_with_abi|SimpleArg-%d" % n_sa, "%s:%d" % (da.file, st["ln"]),
                          "is_reg is false, or true only where is_always_immediate() was false",
                          "is_reg can be true for an argument whose encoding is always an immediate (jump offset / jump time / imm): "
                          "extract_jump_args_by_signature then panics in expect_immediate_int on file-supplied values")
    rep.floor("SimpleArg constructions in decode_args_with_abi", n_sa, 2)
    rep.check(bool(res), "R-IMM-INV", "decode_args_with_abi|consults is_always_immediate", da.loc, "is_always_immediate() is consulted", "is_always_immediate() is never consulted")

    # ---------------- R-QUAD-DISPATCH: mechanical witness for the audited `unreachable!()` in std::read_quad
    rep.rule("R-QUAD-DISPATCH", "read_quad: every (type, size) arm of the header match that lets control continue to the body names a quad type that the "
                                "body's `match kind` handles; all other arms (terminator, wrong size, unknown type) return.  Witness for the audited "
                                "`unreachable!()` of the body")
    from facts import hir_walk as _hw
    from rules import arms as _arms
    rq = db.fn("formats::std::read_quad")
    rep.fn(rq)
    ms = [n for n in _hw(rq.hir) if n.get("k") == "Match" and n.get("src") == "Normal"]
    def _lits(p, pos=None):
        out = set()
        if p.get("k") == "Or":
            for q in p["ps"]:
                out |= _lits(q, pos)
            return out
        if p.get("k") == "Tuple" and pos is not None and len(p["ps"]) > pos:
            return _lits(p["ps"][pos], None)
        if p.get("k") == "Lit":
            return {("-" if p.get("neg") else "") + re.sub(r"_?[iu]\d+$", "", p["v"])}
        if p.get("k") in ("Wild", "Bind"):
            return {"_"}
        return {"?"}
    head = [m_ for m_ in ms if m_["s"].get("k") == "Tup"]
    body = [m_ for m_ in ms if m_["s"].get("k") == "Path" and m_["s"].get("p") == "kind"]
    okq = False
    whyq = "the header match on (kind, size) or the body match on kind was not found"
    if head and body:
        cont = set()
        for arm in head[0]["arms"]:
            returns = any(x.get("k") == "Ret" for x in _hw(arm["b"])) or arm["b"].get("never")
            if not returns:
                cont |= _lits(arm["p"], 0)
        handled = set()
        for arm in body[0]["arms"]:
            diverges = bool(arm["b"].get("never")) or "unreachable" in (arm["b"].get("x") or "")
            if not diverges:
                handled |= _lits(arm["p"])
        okq = bool(cont) and cont <= handled and "_" not in cont
        whyq = "quad types %s continue past the header check but the body only handles %s: the `unreachable!()` arm is reached on file data" % (sorted(cont), sorted(handled))
    rep.check(okq, "R-QUAD-DISPATCH", "read_quad|continuing types are handled", rq.loc, "only types the body handles continue past the header check", whyq)
    # ---------------- R-PROGRESS: the instruction-reading loop consumes input on every iteration
    rep.rule("R-PROGRESS", "llir::read_instrs calls read_instr once on every trip round its loop, and every read_instr implementation reads at "
                           "least one primitive from the stream before it reports an instruction (the file is finite, so the loop ends)")
    ri = db.fn("llir::read_instrs")
    rep.fn(ri)
    call_bbs = set()
    for g in [ri] + list(db.children.get(ri.id, [])):
        for bi, t in g.calls():
            if (t.get("f") or "").endswith("InstrFormat::read_instr"):
                call_bbs.add((g.id, bi))
    # the call sits in a closure passed to chain_with: the loop block is the chain_with call in read_instrs
    loop_bbs = set(bi for bi, t in ri.calls() if (t.get("f") or "").endswith("chain_with") or (t.get("f") or "").endswith("InstrFormat::read_instr"))
    headers = set(flow.innermost_header(ri, b) for b in loop_bbs) - {None}
    ok = bool(call_bbs) and len(headers) == 1 and flow.every_iteration_passes(ri, list(headers)[0], loop_bbs)
    rep.check(ok, "R-PROGRESS", "read_instrs|one read_instr per iteration", ri.loc, "every trip round the loop reads an instruction",
              "read_instrs can go round its loop without calling read_instr (a script that does not end would be read forever)")
    n_ri = 0
    for im in db.impls:
        if im["trait"] != "llir::InstrFormat" or im["self"].startswith("llir::Test"):
            continue
        for it in im["items"]:
            if it["n"] != "read_instr":
                continue
            g = db.fns.get(it["id"])
            if g is None:
                continue
            n_ri += 1
            rep.fn(g)
            okp, badret = flow.must_pass(g, ["io::BinRead::read_u8", "io::BinRead::read_i8", "io::BinRead::read_u16", "io::BinRead::read_i16", "io::BinRead::read_u32",
                                             "io::BinRead::read_i32", "io::BinRead::read_f32", "read_i16_or_eof", "read_u32_or_eof", "read_i32_or_eof", "read_u16_or_eof", "read_byte_vec", "read_exact"])
            rep.check(okp, "R-PROGRESS", "%s|reads before returning" % im["self"], g.loc, "every non-error path reads from the stream",
                      "%s::read_instr can return without reading anything%s" % (im["self"], "" if badret is None else " (return in bb%d)" % badret))
    rep.floor("read_instr implementations", n_ri, 8)
    # ---------------- R-PANIC-DECOMP: explicit panic sites in the decompile-side code of the format modules
    rep.rule("R-PANIC-DECOMP", "explicit panic sites (unwrap/expect/assert/unreachable/panic) in functions of src/formats reachable from the decompile "
                               "entry points are audited: one more such site than audited is a potential crash on file-derived data")
    dtab = json.load(open(os.path.join(VERIF, "engine", "tables", "c16_panic_decompile.json")))["entries"]
    in_scope = set(f.id for f in fs)
    droots = [f.id for f in db.fns.values() if re.search(r"formats::.*::decompile$|decompile_to_ast$|formats::std::decompile_std$", f.id)]
    rep.floor("decompile entry points", len(droots), 8)
    DR = db.reachable(droots)
    cnt_d = {}
    n_d = n_df = 0
    for f in sorted((db.fns[i] for i in DR if i in db.fns), key=lambda f: (root_fn(f.id), f.file, f.line, f.id)):
        if f.gen or not f.file.startswith("src/formats/") or f.id in in_scope:
            continue
        n_df += 1
        rep.fn(f)
        rid = root_fn(f.id)
        cnt = cnt_d.setdefault(rid, {})
        for bi, t in f.calls():
            c = t.get("f", "")
            if not PANIC.match(c) or f.blocks[bi].get("cleanup"):
                continue
            n_d += 1
            rep.site()
            k = kind_of(t)
            cnt[k] = cnt.get(k, 0) + 1
            key = "%s|%s|%d" % (rid, k, cnt[k])
            ent = dtab.get(rid)
            if ent and cnt[k] <= ent.get("allow", {}).get(k, 0):
                rep.ok("R-PANIC-DECOMP", key, "%s:%d" % (f.file, t["ln"]), "%s: audited: %s" % (k, ent["reason"]))
            else:
                rep.bad("R-PANIC-DECOMP", key, "%s:%d" % (f.file, t["ln"]), "%s in decompile-side code that handles file-derived data, not covered by the audit (%s)" % (
                    k, "audit allows %d" % ent.get("allow", {}).get(k, 0) if ent else "function not audited"))
    rep.floor("decompile-side functions of src/formats", n_df, 100)
    rep.floor("explicit panic sites in decompile-side format code", n_d, 15)
    # ---------------- R-TAINT-SLICE: a number read from the file never selects a sub-slice without a bound check
    rep.rule("R-TAINT-SLICE", "in the reader layer a value read from the file (BinRead::read_*) reaches the bounds of a range-slicing / split "
                              "operation only behind a dominating comparison of that value (slicing out of range panics)")
    RANGE_IDX = re.compile(r"^core::ops::index::Index(Mut)?::index(_mut)?$|<impl \[T\]>::(split_at|split_at_mut|split_off|copy_within)$|Vec::<T, A>::(split_off|drain)$")
    n_sl = 0
    for f in sorted(fs, key=lambda f: (f.file, f.line, f.id)):
        d = None
        k = 0
        for bi, t in f.calls():
            c = t.get("f", "")
            if not RANGE_IDX.search(c) or f.blocks[bi].get("cleanup") or len(t.get("a", [])) < 2:
                continue
            ga = " ".join(t.get("ga") or [])
            if c.startswith("core::ops::index::") and "ops::range::Range" not in ga:
                continue
            n_sl += 1
            rep.site()
            k += 1
            if d is None:
                d = flow.Defs(f)
            srcs = _value_sources(f, d, t["a"][1])
            reads = set((x[1], x[2]) for x in srcs if x[0] == "call" and re.match(r"^io::BinRead::read_(u8|i8|u16|i16|u32|i32|u64|i64)$", x[1] or ""))
            key = "%s|slice-%d" % (root_fn(f.id), k)
            loc = "%s:%d" % (f.file, t["ln"])
            if not reads:
                rep.ok("R-TAINT-SLICE", key, loc, "bounds do not come from a scalar read from the file")
                continue
            guarded = False
            for g in flow.guards_before(f, bi, d):
                gs = set((x[1], x[2]) for side in ("a", "b") for x in g[side] if x[0] == "call")
                if gs & reads:
                    guarded = True
            rep.check(guarded, "R-TAINT-SLICE", key, loc, "the file-supplied bound is compared before it is used",
                      "the bound of this slice comes from %s read from the file and is not range-checked first: a crafted file makes the slice panic" % sorted(r[0].rsplit("::", 1)[-1] for r in reads))
    rep.floor("range-slicing sites in the reader layer", n_sl, 3)
    return rep
