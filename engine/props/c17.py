"""C17 Extracting images and compiling them back reproduces the embedded textures (narrow structural clauses)."""
import re
from common import Report, Broken
from facts import hir_walk, op_local, op_place, place_local
from rules import arms, flow
from rules.visit import variant_alternatives

EXPLANATION = (
    "Static rules over image::color and formats::anm::{image_io, mod}.  R-PIXEL-WIDTH: each ColorBytes impl reads and "
    "writes one primitive of the same width, and that width is the impl's BYTES_PER_PIXEL (so decode/encode walk the "
    "buffer in step).  R-TRANSCODE: transcode_to_argb_8888 / transcode_from_argb_8888 / bytes_per_pixel / "
    "from_format_num cover the same ColorFormat variants; Argb8888 is passed through unchanged (Rc::clone) and for every "
    "other variant V the `to` arm is Argb8888::encode(V::decode(..)) and the `from` arm V::encode(Argb8888::decode(..)) "
    "(resolved generic callees per arm).  R-EXTRACT-COPY: extraction places the texture on the padded canvas with an "
    "exact pixel copy (GenericImage::copy_from on sub_image(offset_x, offset_y, w, h)); no blending / resampling "
    "routine of the image crate is used anywhere in the ANM image code, and loading crops with the same offsets.  "
    "R-SOURCE-ORDER: entries of an ANM image source that share a path are queued per path and handed out first-in "
    "first-out (push + reverse + pop, or front removal); order-destroying removals (swap_remove) are not used; the "
    "image sources are applied in command-line order by one loop.  Decides these conditions only; pixel-exact "
    "losslessness over all pixel values and source precedence for concrete inputs are NOT decided.")
RULE = "instance = one ColorBytes impl / ColorFormat arm / image-manipulation call / queue operation"

CF = "image::color::ColorFormat"
BLEND = re.compile(r"^image::imageops::(overlay|blend|resize|resize_exact|thumbnail|blur|unsharpen|filter3x3|brighten|contrast|huerotate|dither|colorops|invert|replace|tile|flip|rotate)|^image::imageops::sample::|^image::imageops::colorops::|^image::imageops::affine::")


def run(db, tier):
    rep = Report("C17", tier, EXPLANATION, RULE)
    rep.rule("R-PIXEL-WIDTH", "a pixel format reads, writes and strides by the same number of bytes")
    rep.rule("R-TRANSCODE", "to/from ARGB8888 transcoding use the matching decode/encode pair for every format")
    rep.rule("R-EXTRACT-COPY", "extraction copies pixels exactly; load crops by the same offsets")
    rep.rule("R-SOURCE-ORDER", "entries sharing a path are matched to source entries in order of appearance")

    # ---------------- R-PIXEL-WIDTH
    impls = [im for im in db.impls if im["trait"] == "image::color::ColorBytes"]
    rep.floor("ColorBytes impls", len(impls), 4)
    W = {"u8": 1, "i8": 1, "u16": 2, "i16": 2, "u32": 4, "i32": 4}
    for im in impls:
        r = w = None
        for it in im["items"]:
            if it["n"] == "read_color_bytes":
                r = db.fns.get(it["id"])
            if it["n"] == "write_color_bytes":
                w = db.fns.get(it["id"])
        if r is None or w is None:
            rep.bad("R-PIXEL-WIDTH", im["self"], "%s:%d" % (im["file"], im["line"]), "read_color_bytes/write_color_bytes not found")
            continue
        rep.fn(r)
        rep.fn(w)
        rp = [m.group(1) for _, t in r.calls() for m in [re.match(r"^io::BinRead::read_(\w+)$", t.get("f", ""))] if m]
        wp = [m.group(1) for _, t in w.calls() for m in [re.match(r"^io::BinWrite::write_(\w+)$", t.get("f", ""))] if m]
        ok = len(rp) == 1 and rp == wp and rp[0] in W
        # BYTES_PER_PIXEL: size of the newtype's field equals the primitive width
        adt = db.adts.get(im["self"])
        fld = db.types[adt["variants"][0]["fields"][0]["ty"]] if adt and adt["variants"] and adt["variants"][0]["fields"] else None
        ok = ok and fld in W and W[fld] == W[rp[0]]
        rep.check(ok, "R-PIXEL-WIDTH", im["self"], r.loc, "read_%s / write_%s on a %s newtype" % ("".join(rp), "".join(wp), fld),
                  "pixel format %s reads %s, writes %s, stores %s" % (im["self"], rp, wp, fld))
    # BYTES_PER_PIXEL constants cannot be read from MIR of users directly; bytes_per_pixel() arms name the impl consts
    # ---------------- R-TRANSCODE
    variants = arms.adt_variants(db, CF)
    rep.floor("ColorFormat variants", len(variants), 4)
    fns = {}
    for name in ("transcode_to_argb_8888", "transcode_from_argb_8888", "bytes_per_pixel"):
        fns[name] = db.fn(CF + "::" + name)
        rep.fn(fns[name])
    tabs = {}
    for name, f in fns.items():
        m = arms.first_match(f, db, CF)
        t = {}
        if m is not None:
            for vs, arm in arms.simple_table(m):
                for v in vs:
                    t.setdefault(v, arm)
        tabs[name] = t
        for v in variants:
            rep.check(v in t, "R-TRANSCODE", "%s|%s|listed" % (name, v.rsplit("::", 1)[-1]), f.loc, "explicit arm", "%s has no explicit arm for %s" % (name, v))

    def generic_calls(f, arm):
        """(callee, self type) of ColorBytes::decode / encode calls on the arm's lines (from MIR, generic args)"""
        lo, hi = arm["ln"], arm["ln"]
        out = []
        for _, t in f.calls():
            if t["ln"] == arm["ln"] and t.get("f", "") in ("image::color::ColorBytes::decode", "image::color::ColorBytes::encode"):
                out.append((t["f"].rsplit("::", 1)[-1], (t.get("ga") or ["?"])[0].rsplit("::", 1)[-1]))
        return out
    for v in variants:
        short = v.rsplit("::", 1)[-1]
        a_to = tabs["transcode_to_argb_8888"].get(v)
        a_from = tabs["transcode_from_argb_8888"].get(v)
        if a_to is None or a_from is None:
            continue
        ct = generic_calls(fns["transcode_to_argb_8888"], a_to)
        cf = generic_calls(fns["transcode_from_argb_8888"], a_from)
        if short == "Argb8888":
            ok = not ct and not cf
            rep.check(ok, "R-TRANSCODE", "arms|Argb8888|identity", fns["transcode_to_argb_8888"].loc, "ARGB8888 data is passed through unchanged",
                      "ARGB8888 is transcoded (%s / %s) instead of being passed through" % (ct, cf))
        else:
            ok_to = sorted(ct) == sorted([("decode", short), ("encode", "Argb8888")])
            ok_from = sorted(cf) == sorted([("decode", "Argb8888"), ("encode", short)])
            rep.check(ok_to, "R-TRANSCODE", "to|%s" % short, "%s:%d" % (fns["transcode_to_argb_8888"].file, a_to["ln"]),
                      "Argb8888::encode(%s::decode(..))" % short, "transcode_to_argb_8888 arm for %s uses %s" % (short, ct))
            rep.check(ok_from, "R-TRANSCODE", "from|%s" % short, "%s:%d" % (fns["transcode_from_argb_8888"].file, a_from["ln"]),
                      "%s::encode(Argb8888::decode(..))" % short, "transcode_from_argb_8888 arm for %s uses %s" % (short, cf))

    # ---------------- R-EXTRACT-COPY
    n_img = 0
    for g in db.fns.values():
        if g.gen or not (g.file.endswith("formats/anm/image_io.rs") or g.file.endswith("formats/anm/mod.rs") or g.file.endswith("image/color.rs")):
            continue
        for _, t in g.calls():
            c = t.get("f", "")
            if c.startswith("image::"):
                n_img += 1
                rep.site()
                if BLEND.match(c):
                    rep.bad("R-EXTRACT-COPY", "%s|%s" % (g.id, c), "%s:%d" % (g.file, t["ln"]), "%s alters pixel values (blending / resampling); textures must be copied exactly" % c)
    rep.floor("calls into the image crate", n_img, 5)
    pe = db.fn("formats::anm::image_io::produce_image_from_entry")
    rep.fn(pe)
    calls = [t.get("f", "") for _, t in pe.calls()]
    cp = any(c.endswith("GenericImage::copy_from") for c in calls)
    sub = [t for _, t in pe.calls() if t.get("f", "").endswith("GenericImage::sub_image")]
    rep.check(cp and bool(sub), "R-EXTRACT-COPY", "extract|copy_from(sub_image)", pe.loc, "texture is copied exactly onto the padded canvas",
              "extraction no longer uses sub_image(..).copy_from(..) to place the texture")
    d = flow.Defs(pe)
    if sub:
        srcs = set()
        for a in sub[0]["a"][1:3]:
            l = op_local(a)
            if l is not None:
                srcs |= d.sources(l)
        rep.check(flow.has_field_source(srcs, "EntrySpecs", "offset_x") and flow.has_field_source(srcs, "EntrySpecs", "offset_y"), "R-EXTRACT-COPY", "extract|pads-by-entry-offsets", pe.loc,
                  "the texture is placed at (offset_x, offset_y) of the entry", "the sub_image position does not come from the entry's offset_x/offset_y")
    ld = db.fn("formats::anm::image_io::load_img_file_for_entry")
    rep.fn(ld)
    lsub = [t for g in db.with_closures(ld) for _, t in g.calls() if t.get("f", "").endswith("GenericImage::sub_image") or t.get("f", "").endswith("GenericImageView::view") or t.get("f", "").endswith("sub_image")]
    rep.check(bool(lsub), "R-EXTRACT-COPY", "load|crops-with-sub_image", ld.loc, "loading crops the source image with sub_image(offsets, dims)", "loading no longer crops the image with sub_image")

    # ---------------- R-PIXEL-PATH: nothing on the extract / load path writes into a pixel buffer except the exact-copy primitives
    rep.rule("R-PIXEL-PATH", "in formats/anm/image_io.rs pixel containers (byte buffers, ImageBuffer, SubImage, DynamicImage) are mutably "
                             "borrowed only by the exact-copy primitives (sub_image, copy_from); no other call and no direct store writes "
                             "pixel bytes between the THTX data and the image file (or back)")
    PIX = re.compile(r"\[u8\]|Vec<u8>|ImageBuffer<|SubImage<|DynamicImage|ChunksExactMut<|ChunksMut<|IterMut<'_, u8>|\[u8; \d+\]")
    ALLOWED_MUT = ("image::image::GenericImage::sub_image", "image::image::GenericImage::copy_from")
    n_mut = n_fn = 0
    for g in sorted(db.fns.values(), key=lambda g: (g.file, g.line)):
        if g.gen or not g.file.endswith("formats/anm/image_io.rs"):
            continue
        n_fn += 1
        rep.fn(g)
        L = g.mir["locals"]
        for _, t in g.calls():
            c = t.get("f", "") or ""
            for a in t.get("a", []):
                l = op_local(a)
                if l is None:
                    continue
                ty = db.types[L[l]]
                if ty.startswith("&mut ") and PIX.search(ty):
                    n_mut += 1
                    rep.site()
                    rep.check(c in ALLOWED_MUT, "R-PIXEL-PATH", "%s|%s" % (g.id, c), "%s:%d" % (g.file, t["ln"]),
                              "%s places pixels by exact copy" % c.rsplit("::", 1)[-1],
                              "%s takes a mutable borrow of pixel data (%s): pixel bytes are modified on the way between texture and image file" % (c, ty))
        for b in g.blocks:
            for st in b["s"]:
                d = st.get("d")
                if isinstance(d, dict) and d.get("p"):
                    base = db.types[L[d["l"]]]
                    proj = d["p"]
                    if PIX.search(base) and any(e == "*" or (isinstance(e, list) and e[0] in ("i", "ci", "sub")) for e in proj):
                        rep.bad("R-PIXEL-PATH", "%s|direct store" % g.id, "%s:%d" % (g.file, st["ln"]),
                                "a pixel byte is overwritten in place (%s)" % base)
    rep.floor("functions of formats/anm/image_io.rs", n_fn, 10)
    rep.floor("mutable borrows of pixel containers on the extract/load path", n_mut, 1)

    # ---------------- R-SOURCE-ORDER
    ap = db.fn("formats::anm::apply_anm_image_source")
    rep.fn(ap)
    cl = [t.get("f", "") for g in db.with_closures(ap) for _, t in g.calls()]
    bad = [c for c in cl if c.endswith("::swap_remove") or c.endswith("::swap_remove_back") or c.endswith("::swap_remove_front") or c.endswith("::sort_unstable") or c.endswith("HashMap::<K, V, S, A>::drain")]
    rep.check(not bad, "R-SOURCE-ORDER", "apply_anm_image_source|no-order-destroying-removal", ap.loc, "no order-destroying queue operation",
              "%s is used on the per-path queues: entries sharing a path are no longer matched in order of appearance" % bad)
    push = any(c.endswith("Vec::<T, A>::push") for c in cl)
    fifo = (any(c.endswith("<impl [T]>::reverse") for c in cl) and any(c.endswith("Vec::<T, A>::pop") for c in cl)) or \
           any(c.endswith("VecDeque::<T, A>::pop_front") for c in cl) or any(c.endswith("Vec::<T, A>::remove") for c in cl)
    lifo_only = any(c.endswith("Vec::<T, A>::pop") for c in cl) and not any(c.endswith("<impl [T]>::reverse") for c in cl)
    rep.check(push and fifo and not lifo_only, "R-SOURCE-ORDER", "apply_anm_image_source|fifo", ap.loc, "per-path queues are filled in file order and drained first-in first-out",
              "the per-path queues are not drained first-in first-out (push=%s, reverse+pop/pop_front/remove(0)=%s)" % (push, fifo))
    # ---------------- R-PIXEL-LAYOUT: decoder and encoder of each packed pixel format agree bit for bit
    from rules import bitlayout, hirq
    rep.rule("R-PIXEL-LAYOUT", "for each packed 16-bit format the bit field that the decoder extracts for a channel (shift, mask, "
                               "change_bit_depth::<w, 8>) is exactly the field into which the encoder packs the channel's top w bits; the fields "
                               "are disjoint and cover the pixel; ARGB8888 uses the same byte order in both directions; the gray weights sum to 1")
    CH = ("red", "green", "blue", "alpha")
    for fmt, bits in (("Rgb565", 16), ("Argb4444", 16)):
        dec = db.fn("<image::color::Components as core::convert::From<image::color::%s>>::from" % fmt)
        enc = db.fn("<image::color::%s as core::convert::From<image::color::Components>>::from" % fmt)
        rep.fn(dec)
        rep.fn(enc)

        def pix_origin(n, bits=bits):
            if n.get("k") == "Field" and n.get("n") == "0" and n["e"].get("k") == "Path" and n["e"].get("p") == "color":
                return ("pixel", bits)
            return None

        def comp_origin(n):
            if n.get("k") == "Field" and n.get("n") in CH and n["e"].get("k") == "Path" and n["e"].get("p") == "components":
                return (n["n"], 8)
            return None
        sd = bitlayout.Sym(dec, db, pix_origin)
        st_ = [n for n in hir_walk(dec.hir) if n.get("k") == "Struct" and n.get("p", "").endswith("color::Components")]
        dec_fields = {}
        undec = []
        for nm, e in (st_[0]["fs"] if st_ else []):
            sd.notes = []
            v = sd.ev(e)
            if v is None:
                if bitlayout.lit_int(e) == 255:
                    dec_fields[nm] = "const255"
                else:
                    undec.append(nm)
                continue
            # the value handed to change_bit_depth::<IN, 8> is pixel bits [lo, lo+w) at bit 0
            cbd = sd.notes[-1] if sd.notes else None
            inp = [x for x in cbd[2] if x[0] == "pixel"] if cbd is not None else []
            if len(inp) == 1 and inp[0][3] == 0:
                dec_fields[nm] = (inp[0][1], inp[0][2], cbd[0])
            else:
                undec.append(nm)
        se = bitlayout.Sym(enc, db, comp_origin)
        ctor = [n for n in hir_walk(enc.hir) if n.get("k") == "Call" and (n.get("f") or "").endswith("color::" + fmt) and n.get("a")]
        ev = se.ev(ctor[0]["a"][0]) if ctor else None
        enc_fields = {}
        if ev is not None:
            for (o, olo, w, d) in ev:
                if o in CH and olo + w == 8:
                    enc_fields[o] = (d, w)
        if se.overlaps:
            rep.bad("R-PIXEL-LAYOUT", "%s|encoder overlap" % fmt, enc.loc, "the encoder of %s packs two channels onto bit(s) %s" % (fmt, sorted(set(se.overlaps))))
        if undec or ev is None:
            raise Broken("R-PIXEL-LAYOUT: cannot follow the bit operations of %s (%s)" % (fmt, undec or "encoder"))
        cover = set()
        for nm in CH:
            d_ = dec_fields.get(nm)
            e_ = enc_fields.get(nm)
            if d_ == "const255":
                rep.check(e_ is None, "R-PIXEL-LAYOUT", "%s|%s" % (fmt, nm), dec.loc, "%s: constant on decode, not stored" % nm,
                          "%s is decoded as a constant but the encoder stores it at bit %s" % (nm, e_))
                continue
            ok = d_ is not None and e_ is not None and (d_[0], d_[1]) == e_ and d_[2] == d_[1]
            rep.check(ok, "R-PIXEL-LAYOUT", "%s|%s" % (fmt, nm), "%s / %s" % (dec.loc, enc.loc),
                      "%s: bits [%s, +%s) on both sides, rescaled from %s bits" % (nm, e_[0] if e_ else "?", e_[1] if e_ else "?", d_[2] if d_ else "?"),
                      "%s of %s: the decoder reads (lo, width, rescale-from) = %s but the encoder writes (lo, width) = %s: a texture does not survive "
                      "decode + encode" % (nm, fmt, d_, e_))
            if e_:
                cover |= set(range(e_[0], e_[0] + e_[1]))
        rep.check(cover == set(range(bits)), "R-PIXEL-LAYOUT", "%s|coverage" % fmt, enc.loc, "the channel fields cover all %d bits exactly once" % bits,
                  "the channel fields of %s cover bits %s of %d" % (fmt, sorted(cover), bits))
    # ARGB8888: byte order
    d8 = db.fn("<image::color::Components as core::convert::From<image::color::Argb8888>>::from")
    e8 = db.fn("<image::color::Argb8888 as core::convert::From<image::color::Components>>::from")
    rep.fn(d8)
    rep.fn(e8)
    dord = None
    for st in hirq.let_stmts(d8.hir):
        if st["p"].get("k") == "Slice" and any((c.get("f") or "").endswith("to_be_bytes") or (c.get("f") or "").endswith("to_le_bytes") for c in hirq.call_seq(st["i"])):
            dord = ([q.get("n") for q in st["p"]["a"]], [c["f"].rsplit("::", 1)[-1] for c in hirq.call_seq(st["i"])][0])
    eord = None
    for c in hirq.call_seq(e8.hir):
        if c["f"].endswith("from_be_bytes") or c["f"].endswith("from_le_bytes"):
            arr = c["a"][0]
            eord = ([x.get("p") for x in arr.get("es", [])], c["f"].rsplit("::", 1)[-1])
    ok8 = dord is not None and eord is not None and dord[0] == eord[0] and dord[1].replace("to_", "") == eord[1].replace("from_", "")
    rep.check(ok8, "R-PIXEL-LAYOUT", "Argb8888|byte order", "%s / %s" % (d8.loc, e8.loc), "decode %s == encode %s" % (dord, eord),
              "ARGB8888 is unpacked as %s but packed as %s" % (dord, eord))
    # gray: weights sum to one (so that R=G=B=v encodes back to v)
    g8 = db.fn("<image::color::Gray8 as core::convert::From<image::color::Components>>::from")
    rep.fn(g8)
    wts = {}
    for n in hir_walk(g8.hir):
        if n.get("k") == "Binary" and n.get("op") == "*":
            chs = [v for t_, v in hirq.features(g8, n["l"], {}) if t_ == "local" and v in CH] + [v for t_, v in hirq.features(g8, n["l"], {}) if t_ == "field" and v in CH]
            try:
                wv = float(str(n["r"].get("v")).replace("_f32", "").replace("f32", ""))
            except (TypeError, ValueError):
                wv = None
            if len(chs) == 1 and wv is not None:
                wts[chs[0]] = wv
    rep.check(set(wts) == {"red", "green", "blue"} and abs(sum(wts.values()) - 1.0) < 1e-6, "R-PIXEL-LAYOUT", "Gray8|weights", g8.loc,
              "luma weights %s sum to 1" % wts, "the gray weights %s do not cover red, green and blue with sum 1: a gray texture does not encode back to itself" % wts)
    gd = db.fn("<image::color::Components as core::convert::From<image::color::Gray8>>::from")
    rep.fn(gd)
    stg = [n for n in hir_walk(gd.hir) if n.get("k") == "Struct" and n.get("p", "").endswith("color::Components")]
    same = stg and all((e.get("k") == "Path" and e.get("p") == "value") for nm, e in stg[0]["fs"] if nm != "alpha")
    rep.check(bool(same), "R-PIXEL-LAYOUT", "Gray8|decode", gd.loc, "R = G = B = value", "gray is not decoded to R = G = B = value")
    return rep
