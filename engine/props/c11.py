"""C11 Compile-time evaluation agrees with run-time evaluation (operator table)."""
from common import Report
from facts import hir_walk, op_local, op_place, place_local
from rules import arms, optables, flow
from rules.visit import variant_alternatives
from rules import visit

EXPLANATION = (
    "Static rules over BinOpKind::const_eval / UnOpKind::const_eval (the one operator table used by the constant "
    "folder, the const-variable evaluator and the reference VM) read from HIR arms and MIR: integer + - * / % and "
    "negation are i32::wrapping_* calls and no overflow Assert survives in those bodies; integer / and % cannot be "
    "reached with a zero divisor (a switch on the divisor's value removes the 0 case before the division is reached, "
    "and every non-VM caller turns the undefined result into an emitted error instead of unwrapping it); shift counts "
    "come from handle_shift_rhs (x as u32 % 32), >> shifts an i32 (arithmetic) and >>> a u32 (logical); casts are "
    "`as` conversions (FloatToInt / IntToFloat) in the evaluator and in ScalarValue::read_as_*; logical operators are "
    "defined on ints only with C-style short-circuit selection; the two AST walkers (const_simplify visitor, "
    "consts::Evaluator) call the same table functions, cover the same Expr variants and use the same ternary "
    "selection rule.  Decides the shape of the operator table, not float results or compiled-byte equality.")
RULE = ("instance = one operator cell / division site / shift site / cast site / caller of the table / Expr variant of a "
        "walker; all non-trivial; distinct by key")

WRAP = {"Add": "wrapping_add", "Sub": "wrapping_sub", "Mul": "wrapping_mul", "Div": "wrapping_div", "Rem": "wrapping_rem"}
SIMPLIFY_VISIT = "<passes::const_simplify::Visitor<'_, '_> as ast::mut_::VisitMut>::visit_expr"
CONSTS_EVAL = "context::consts::Evaluator::<'a>::_const_eval"
VM_EVAL_CALLERS = ("vm::AstVm::eval", "vm::AstVm::_run")


def run(db, tier):
    rep = Report("C11", tier, EXPLANATION, RULE)
    rep.rule("R-WRAP", "integer arithmetic in the evaluator uses i32::wrapping_*; no overflow Assert remains")
    rep.rule("R-DIVZERO", "integer division / remainder is unreachable with a zero divisor, and the undefined case becomes an error")
    rep.rule("R-SHIFT", "shift counts derive from handle_shift_rhs (mod 32); >> is arithmetic on i32, >>> logical on u32")
    rep.rule("R-CAST", "int<->float conversions are `as` casts (truncating / saturating per Rust semantics)")
    rep.rule("R-LOGIC", "&&, ||, ! are defined for ints only, with C-style selection")
    rep.rule("R-ONE-TABLE", "every evaluator calls the same BinOpKind/UnOpKind::const_eval and cast_by_ty_sigil")
    rep.rule("R-WALKERS", "the two AST walkers handle the same Expr variants and the same ternary rule")
    T = optables.build(db)
    fb = T.f_bin_eval
    fu = db.fn(optables.F_UN_EVAL)
    fouter = db.fn(optables.F_BIN_EVAL_OUTER)
    for f in (fb, fu, fouter):
        rep.fn(f)

    # ---- R-WRAP
    for op, m in WRAP.items():
        opv = "ast::BinOpKind::" + op
        arm = T.bin_eval_arm.get((opv, "Int"))
        key = "binop|%s|Int" % op
        if arm is None:
            rep.bad("R-WRAP", key, fb.loc, "no Int arm for %s" % op)
            continue
        calls = arms.calls_in(arm["b"])
        rep.check("core::num::<impl i32>::" + m in calls, "R-WRAP", key, "%s:%d" % (fb.file, arm["ln"]),
                  "uses i32::%s" % m, "Int arm of %s does not call i32::%s (calls: %s)" % (op, m, calls))
    arm = T.un_eval_arm.get(("ast::UnOpKind::Neg", "Int"))
    rep.check(arm is not None and "core::num::<impl i32>::wrapping_neg" in arms.calls_in(arm["b"]), "R-WRAP", "unop|Neg|Int",
              "%s:%d" % (fu.file, arm["ln"] if arm else fu.line), "uses i32::wrapping_neg", "Int negation does not call i32::wrapping_neg")
    n_assert = 0
    for f in (fb, fu, fouter):
        d = flow.Defs(f)
        k = 0
        for bi, b in enumerate(f.blocks):
            t = b["t"]
            if t["k"] != "assert":
                continue
            n_assert += 1
            k += 1
            msg = t["msg"]
            key = "%s|assert|%s|%d" % (f.id, msg, k)
            loc = "%s:%d" % (f.file, t["ln"])
            if msg in ("overflow:Shl", "overflow:Shr"):
                # shift-count assert: fine iff the count derives from handle_shift_rhs
                srcs = set()
                for o in t["ops"][1:]:
                    l = op_local(o)
                    if l is not None:
                        srcs |= d.sources(l)
                rep.check(flow.has_call_source(srcs, "handle_shift_rhs"), "R-SHIFT", key, loc,
                          "shift-count assert operand comes from handle_shift_rhs (always < 32)",
                          "shift with a count that does not come from handle_shift_rhs: panics for counts >= 32")
            else:
                rep.bad("R-WRAP", key, loc, "panicking arithmetic (%s) in the constant evaluator" % msg)
    rep.note("Assert terminators in evaluator bodies: %d" % n_assert)

    # ---- R-SHIFT: handle_shift_rhs shape and operand types
    fh = db.fn("passes::const_simplify::handle_shift_rhs")
    rep.fn(fh)
    cast_u32 = rem32 = False
    for b in fh.blocks:
        for s in b["s"]:
            if s["r"] == "cast" and db.types[s["to"]] == "u32" and db.types[s["from"]] == "i32":
                cast_u32 = True
            if s["r"] == "binop" and s["op"] == "Rem":
                for k in ("a", "b"):
                    if isinstance(s[k], dict) and s[k].get("iv") == 32:
                        rem32 = True
    rep.check(cast_u32 and rem32, "R-SHIFT", "handle_shift_rhs|as-u32-mod-32", fh.loc, "x as u32 % 32",
              "handle_shift_rhs is no longer `x as u32 % 32`")
    shifts = []
    for b in fb.blocks:
        for s in b["s"]:
            if s["r"] == "binop" and s["op"] in ("Shl", "Shr", "ShlUnchecked", "ShrUnchecked"):
                shifts.append(s)
    tys = sorted((s["op"], db.types[s["oty"]]) for s in shifts)
    rep.check(("Shr", "i32") in tys, "R-SHIFT", "binop|>>|arithmetic", fb.loc, ">> shifts an i32 (arithmetic)", "no arithmetic (i32) right shift found: %s" % tys)
    rep.check(("Shr", "u32") in tys, "R-SHIFT", "binop|>>>|logical", fb.loc, ">>> shifts a u32 (logical)", "no logical (u32) right shift found: %s" % tys)
    rep.check(("Shl", "i32") in tys, "R-SHIFT", "binop|<<", fb.loc, "<< shifts an i32", "no i32 left shift found: %s" % tys)
    rep.floor("shift operations in const_eval", len(shifts), 3)

    # ---- R-DIVZERO
    div_sites = []
    for f in (fb, fouter):
        for bi, t in f.calls():
            if t.get("f") in ("core::num::<impl i32>::wrapping_div", "core::num::<impl i32>::wrapping_rem"):
                div_sites.append((f, bi, t))
        for bi, b in enumerate(f.blocks):
            for s in b["s"]:
                if s["r"] == "binop" and s["op"] in ("Div", "Rem") and db.types[s["oty"]] in ("i32", "u32"):
                    div_sites.append((f, bi, {"ln": s["ln"], "f": "MIR " + s["op"]}))
    rep.floor("integer division sites", len(div_sites), 2)
    guarded_fn = _zero_divisor_guard(db, fouter, fb.id) if fouter.id != fb.id else None
    k = 0
    for f, bi, t in div_sites:
        k += 1
        key = "div|%s|%d" % (t["f"].rsplit("::", 1)[-1], k)
        loc = "%s:%d" % (f.file, t["ln"])
        ok_local = _local_zero_guard(db, f, bi)
        if ok_local:
            rep.ok("R-DIVZERO", key, loc, "division dominated by a zero test of the divisor in the same function")
        elif f.id == fb.id and guarded_fn:
            rep.ok("R-DIVZERO", key, loc, "only reachable through %s, where %s" % (fouter.id.rsplit("::", 1)[-1], guarded_fn))
        else:
            rep.bad("R-DIVZERO", key, loc, "integer division with no zero-divisor guard: `x / 0` in a constant expression panics")
    # callers of the outer const_eval must not unwrap the undefined case (except the test VM)
    callers = []
    for f in db.fns.values():
        if f.gen:
            continue
        for bi, t in f.calls():
            if t.get("f") == optables.F_BIN_EVAL_OUTER:
                callers.append((f, bi, t))
    rep.floor("callers of BinOpKind::const_eval", len(callers), 3)
    for f, bi, t in callers:
        rep.fn(f)
        root = f.parent or f.id
        key = "caller|%s" % f.id
        loc = "%s:%d" % (f.file, t["ln"])
        dest = place_local(t["d"])
        ret_ty = f.local_ty(dest)
        if not ret_ty.startswith("core::option::Option<"):
            if root in VM_EVAL_CALLERS:
                rep.ok("R-DIVZERO", key, loc, "reference VM (test infrastructure)")
            else:
                rep.bad("R-DIVZERO", key, loc, "const_eval result is not an Option here: undefined results cannot be reported")
            continue
        unwraps = _result_unwrapped(f, dest)
        if root in VM_EVAL_CALLERS:
            rep.ok("R-DIVZERO", key, loc, "reference VM (test infrastructure; panics on undefined results by design)")
        else:
            emits = _fn_emits(db, f)
            rep.check(not unwraps and emits, "R-DIVZERO", key, loc, "undefined result is turned into an emitted error",
                      "undefined result of const_eval is %s" % ("unwrapped (panic)" if unwraps else "not reported as an error"))

    # ---- R-CAST
    cast_sites = 0
    for f, ops in ((fu, (("ast::UnOpKind::CastI", "Float", "FloatToInt"), ("ast::UnOpKind::CastF", "Int", "IntToFloat"))),):
        kinds = set()
        for b in f.blocks:
            for s in b["s"]:
                if s["r"] == "cast" and s["ck"] in ("FloatToInt", "IntToFloat"):
                    kinds.add((s["ck"], db.types[s["from"]], db.types[s["to"]]))
        for op, ty, ck in ops:
            cast_sites += 1
            arm = T.un_eval_arm.get((op, ty))
            has = arm is not None and any(n.get("k") == "Cast" for n in hir_walk(arm["b"]))
            rep.check(has and any(k[0] == ck for k in kinds), "R-CAST", "unop|%s|%s" % (optables.short(op), ty), "%s:%d" % (f.file, arm["ln"] if arm else f.line),
                      "%s of a %s is an `as` cast (%s)" % (optables.short(op), ty, ck), "%s(%s) is not an `as` cast" % (op, ty))
    for name, ck in (("value::ScalarValue::read_as_int", "FloatToInt"), ("value::ScalarValue::read_as_float", "IntToFloat")):
        f = db.fn(name)
        rep.fn(f)
        cast_sites += 1
        casts = [(s["ck"], db.types[s["from"]], db.types[s["to"]]) for b in f.blocks for s in b["s"]
                 if s["r"] == "cast" and s["ck"] in ("FloatToInt", "IntToFloat", "IntToInt", "FloatToFloat")]
        want = ("FloatToInt", "f32", "i32") if ck == "FloatToInt" else ("IntToFloat", "i32", "f32")
        rep.check(casts == [want], "R-CAST", name, f.loc, "sigil read is the single `as` cast %s -> %s (Rust semantics: truncating, saturating, NaN -> 0)" % want[1:],
                  "%s converts through %s instead of a single %s -> %s cast: out-of-range values no longer agree with int()/float() and the machine cast" % (name, casts, want[1], want[2]))
    f = db.fn("value::ScalarValue::cast_by_ty_sigil")
    rep.fn(f)
    cs = arms.calls_in(f.hir)
    rep.check("value::ScalarValue::read_as_int" in cs and "value::ScalarValue::read_as_float" in cs, "R-CAST", "cast_by_ty_sigil|uses-read_as", f.loc,
              "cast_by_ty_sigil uses read_as_int/read_as_float", "cast_by_ty_sigil does not use read_as_int/read_as_float")

    # ---- R-CMP: comparisons are the Rust operators on the operands themselves (IEEE for floats: NaN compares false, != true)
    rep.rule("R-CMP", "each comparison operator is evaluated as `(a OP b) as i32` with the same operator, on ints and on floats")
    CMPOPS = {"Eq": "==", "Ne": "!=", "Lt": "<", "Le": "<=", "Gt": ">", "Ge": ">="}
    for op, sym in sorted(CMPOPS.items()):
        for ty in ("Int", "Float"):
            arm = T.bin_eval_arm.get(("ast::BinOpKind::" + op, ty))
            key = "binop|%s|%s" % (op, ty)
            if arm is None:
                rep.bad("R-CMP", key, fb.loc, "no %s arm for %s" % (ty, op))
                continue
            bins = [n for n in hir_walk(arm["b"]) if n.get("k") == "Binary" and n.get("op") in CMPOPS.values()]
            okc = (len(bins) == 1 and bins[0]["op"] == sym and bins[0]["l"].get("k") == "Path" and bins[0]["r"].get("k") == "Path"
                   and bins[0]["l"].get("p") != bins[0]["r"].get("p") and not [c for c in arms.calls_in(arm["b"]) if not c.startswith("value::ScalarValue::")])
            shared = sum(1 for k2, a2 in T.bin_eval_arm.items() if a2 is arm)
            rep.check(okc and shared == 1, "R-CMP", key, "%s:%d" % (fb.file, arm["ln"]), "(a %s b) as i32" % sym,
                      "the %s arm of `%s` is not `(a %s b) as i32` on its own operands (operators found: %s, calls: %s, arm shared by %d operators): "
                      "e.g. comparisons with NaN or the wrong operator fold to a different value than the machine computes"
                      % (ty, sym, sym, [b_["op"] for b_ in bins], [c.rsplit("::", 1)[-1] for c in arms.calls_in(arm["b"])][:3], shared))

    # ---- R-LOGIC
    for op, sel in (("LogicOr", "||"), ("LogicAnd", "&&")):
        opv = "ast::BinOpKind::" + op
        ai = T.bin_eval.get((opv, "Int"))
        af = T.bin_eval.get((opv, "Float"))
        arm = T.bin_eval_arm.get((opv, "Int"))
        ok = ai is not None and optables.eval_result_ty(ai) == "Int" and (af is None or af[0] == "never")
        has_if = arm is not None and any(n.get("k") == "If" and n["c"].get("k") == "Binary" and n["c"]["op"] == "==" for n in hir_walk(arm["b"]))
        rep.check(ok and has_if, "R-LOGIC", "binop|%s" % sel, "%s:%d" % (fb.file, arm["ln"] if arm else fb.line),
                  "%s defined on ints by selection on `a == 0`, undefined on floats" % sel, "%s is not the C-style int-only selection" % sel)
    arm = T.un_eval_arm.get(("ast::UnOpKind::Not", "Int"))
    ok = arm is not None and any(n.get("k") == "Binary" and n["op"] == "==" for n in hir_walk(arm["b"]))
    rep.check(ok, "R-LOGIC", "unop|!", "%s:%d" % (fu.file, arm["ln"] if arm else fu.line), "!x is (x == 0) as i32", "! is not `(x == 0) as i32`")

    # ---- R-ONE-TABLE
    users = {SIMPLIFY_VISIT: "const folder", CONSTS_EVAL: "const-variable evaluator", "vm::AstVm::eval": "reference VM"}
    for fid, what in users.items():
        f = db.fn(fid)
        rep.fn(f)
        calls = set(t.get("f") for _, t in f.calls())
        for c in db.children.get(f.id, []):
            calls |= set(t.get("f") for _, t in c.calls())
        for callee in (optables.F_BIN_EVAL_OUTER, optables.F_UN_EVAL):
            rep.check(callee in calls, "R-ONE-TABLE", "%s|%s" % (fid, callee.rsplit("::", 1)[-1] + ("-bin" if "BinOp" in callee else "-un")), f.loc,
                      "%s evaluates operators through %s" % (what, callee), "%s does not call %s: a second operator table" % (what, callee))
    for fid in (SIMPLIFY_VISIT, CONSTS_EVAL):
        f = db.fn(fid)
        calls = set(t.get("f") for _, t in f.calls())
        rep.check("value::ScalarValue::cast_by_ty_sigil" in calls, "R-ONE-TABLE", "%s|cast_by_ty_sigil" % fid, f.loc,
                  "sigil casts go through ScalarValue::cast_by_ty_sigil", "sigil reads of constants do not use cast_by_ty_sigil")

    # the const-variable evaluator's operator arms yield nothing but what the shared table computes: every value-returning
    # exit of the BinOp / UnOp arm (explicit `return` or the arm's value) is derived from the const_eval call; `?` exits
    # propagate an operand's error.  (A private shortcut - e.g. a short-circuit that answers before the table is asked -
    # is a second definition of the operator: named and inline uses of the same expression can then differ.)
    fce = db.fn(CONSTS_EVAL)
    from facts import hir_walk as _hw
    from rules import hirq as _hq
    lets = _hq.lets(fce)
    def _vp(a):
        q = visit._strip(a["p"])
        return q.get("p") if isinstance(q.get("p"), str) else ""
    n_exits = 0
    for m in _hw(fce.hir):
        if m.get("k") == "Match" and m.get("src") == "Normal" and any(_vp(a).startswith("ast::Expr::") for a in m["arms"]):
            for a in m["arms"]:
                vp = _vp(a)
                if vp not in ("ast::Expr::BinOp", "ast::Expr::UnOp"):
                    continue
                table = optables.F_BIN_EVAL_OUTER if vp.endswith("BinOp") else optables.F_UN_EVAL
                def from_table(e, depth=0):
                    for y in _hw(e):
                        if y.get("k") in ("Call", "MCall") and y.get("f") == table:
                            return True
                        if depth < 3 and y.get("k") == "Path" and y.get("rk") == "Local" and any(from_table(i, depth + 1) for i in lets.get(y.get("p"), [])):
                            return True
                    return False
                exits = [r["e"] for r in _hw(a["b"]) if r.get("k") == "Ret" and r.get("x") != "desugar:QuestionMark" and "e" in r]
                if not a["b"].get("never"):
                    exits.append(a["b"].get("e") if a["b"].get("k") == "Block" and "e" in a["b"] else a["b"])
                for i, e in enumerate(exits):
                    n_exits += 1
                    rep.check(e is not None and from_table(e), "R-ONE-TABLE", "%s|%s|exit %d from table" % (CONSTS_EVAL, vp.rsplit("::", 1)[-1], i),
                              "%s:%d" % (fce.file, (e or a).get("ln", a["ln"])),
                              "the value comes from %s" % table.rsplit("::", 2)[-2],
                              "the %s arm of the const-variable evaluator returns a value that %s did not compute (line %s): the operator has a second "
                              "definition here, so `const X = <expr>; f(X)` and `f(<expr>)` can differ" % (vp.rsplit("::", 1)[-1], table, (e or a).get("ln")))
            break
    rep.floor("R-ONE-TABLE value exits of the evaluator's operator arms", n_exits, 2)

    # ---- R-WALKERS
    fa = db.fn(SIMPLIFY_VISIT)
    fc = db.fn(CONSTS_EVAL)
    ma = arms.first_match(fa, db, "ast::Expr")
    mc = arms.first_match(fc, db, "ast::Expr")
    va = set(v for vs, _ in arms.simple_table(ma) for v in vs if v != "_")
    vc = set(v for vs, _ in arms.simple_table(mc) for v in vs if v != "_")
    lits = {"ast::Expr::LitInt", "ast::Expr::LitFloat", "ast::Expr::LitString"}
    folded = {"ast::Expr::Var", "ast::Expr::EnumConst", "ast::Expr::UnOp", "ast::Expr::BinOp", "ast::Expr::Ternary"}
    for v in sorted(folded):
        rep.check(v in va and v in vc, "R-WALKERS", "variant|%s" % optables.short(v), fa.loc,
                  "both walkers evaluate %s" % optables.short(v),
                  "%s is evaluated by %s only" % (v, "the const folder" if v in va else "the const-variable evaluator" if v in vc else "neither walker"))
    extra = (va - folded - {"ast::Expr::Call"}) ^ (vc - folded - lits)
    rep.check(not extra, "R-WALKERS", "variant-sets", fa.loc, "no other Expr variant is evaluated by only one walker",
              "Expr variants handled by only one of the two walkers: %s" % sorted(extra))
    for f, m, what in ((fa, ma, "const folder"), (fc, mc, "const-variable evaluator")):
        ok = _ternary_rule(m)
        rep.check(ok, "R-WALKERS", "ternary|%s" % f.id, f.loc, "%s: Int(0) selects the right branch, any other int the left" % what,
                  "%s: ternary selection is not `Int(0) => right, Int(_) => left`" % what)
    # ---------------- R-FOLD-SCHEME: what the simplifier may replace a node with (symbolic evaluation of visit_expr)
    from rules import symeval as SY
    rep.rule("R-FOLD-SCHEME", "const_simplify replaces an expression node only by (a) the cached value of a const variable / enum const (with the sigil "
                              "cast), (b) const_eval of an operator over operands that are ALL constant, (c) the selected branch of a ternary whose "
                              "condition is a constant integer; children are simplified first; nothing else rewrites a node (an algebraic shortcut "
                              "such as `x + 0 -> x` is not value-preserving for floats: -0.0 + 0.0 is +0.0)")
    SY.set_aliases([])
    ve = db.fn("<passes::const_simplify::Visitor<'_, '_> as ast::mut_::VisitMut>::visit_expr")
    rep.fn(ve)
    paths = [p_ for p_ in SY.fn_paths(db, ve.id, effect_calls=("walk_expr", "ErrorFlag::set")) if p_[2] is None]
    got = set()
    post_order = True
    for conds, events, fl, st in paths:
        arm = None
        cdesc = []
        for k, v, _ in conds:
            if k.startswith("match e {"):
                arm = v
            else:
                cdesc.append("%s=%s" % (k, v))
        evs = [SY.render_event(e) for e in events]
        if not evs or not evs[0].startswith("effect walk_expr(self, e)"):
            post_order = False
        for e in evs:
            if e.startswith("store e.value = "):
                got.add((arm, e[len("store e.value = "):], "; ".join(sorted(cdesc))))
    rep.check(post_order and len(paths) >= 12, "R-FOLD-SCHEME", "visit_expr|children first", ve.loc, "every path simplifies the children before looking at the node (%d paths)" % len(paths),
              "some path of visit_expr rewrites a node before its children were simplified")
    want = {
        ("Var", 'expect(cast_by_ty_sigil(get_cached_value(self.ctx.consts, expect_def(self.ctx.resolutions, e.Var.0.name.ident)).Some.0, e.Var.0.ty_sigil), "shoulda been type-checked")'),
        ("EnumConst", "get_cached_value(self.ctx.consts, expect_def(self.ctx.resolutions, e.ident)).Some.0"),
        ("UnOp", "const_eval(e.UnOp.0, to_const(e.UnOp.1).Some.0).Some.0"),
        ("BinOp", "const_eval(e.BinOp.1, to_const(e.BinOp.0).Some.0, to_const(e.BinOp.2).Some.0).Some.0"),
        ("Ternary", "e.right"), ("Ternary", "e.left"),
    }
    got2 = set((a, v) for a, v, c in got)
    for a, v in sorted(want):
        rep.check((a, v) in got2, "R-FOLD-SCHEME", "visit_expr|%s -> %s" % (a, v[:50]), ve.loc, "present", "const_simplify no longer replaces a %s node by %s" % (a, v))
    extra = sorted(got2 - want)
    rep.check(not extra, "R-FOLD-SCHEME", "visit_expr|no other rewrite", ve.loc, "no rewrite besides the six above",
              "const_simplify also rewrites: %s" % [(a, v[:120]) for a, v in extra])
    conds_ok = True
    why = ""
    for a, v, c in got:
        if a == "BinOp" and not ("is_none(to_const(e.BinOp.0))=False" in c and "is_none(to_const(e.BinOp.2))=False" in c):
            conds_ok, why = False, "a BinOp is folded under [%s]: not both operands are known constants" % c
        if a == "UnOp" and "is_none(to_const(e.UnOp.1))=False" not in c:
            conds_ok, why = False, "a UnOp is folded under [%s]" % c
        if a == "Ternary" and v == "e.right" and "-> Some(Int(0))" not in c and "=Some(Int(0))" not in c:
            conds_ok, why = False, "the false branch of a ternary is selected under [%s]" % c
        if a == "Ternary" and v == "e.left" and "=Some(Int)" not in c:
            conds_ok, why = False, "the true branch of a ternary is selected under [%s]" % c
    rep.check(conds_ok, "R-FOLD-SCHEME", "visit_expr|conditions", ve.loc, "operators fold only over constant operands; ternaries select on a constant integer condition", why)
    return rep


def _local_zero_guard(db, f, bb):
    """division block dominated by a switch on the divisor value with a 0-edge that cannot reach it"""
    dom = f.dominators().get(bb, set())
    for g in dom:
        t = f.blocks[g]["t"]
        if t["k"] == "switch" and 0 in t["v"]:
            z = t["t"][t["v"].index(0)]
            if bb not in f.reachable_from(z) and g != bb:
                # the discriminant must be an integer value (not an enum discriminant)
                p = op_place(t["d"])
                l = op_local(t["d"])
                if l is not None and "isize" in f.local_ty(l):
                    continue
                return True
    return False


def _zero_divisor_guard(db, f, callee_id):
    """in f, the call to callee_id is unreachable once a switch on `<param>.Int.0 == 0` takes its 0 edge, for the
    divisor parameter, on the paths where the operator is Div/Rem.  Returns a description or None."""
    d = flow.Defs(f)
    call_bbs = [bi for bi, t in f.calls() if t.get("f") == callee_id]
    if not call_bbs:
        return None
    call_bb = call_bbs[0]
    # which argument of the callee is the divisor?  the callee's 3rd parameter (b)
    t = f.blocks[call_bb]["t"]
    if len(t["a"]) < 3:
        return None
    div_arg = flow.canon_place(f, op_place(t["a"][2]), d)
    zero_switch = None
    for bi, b in enumerate(f.blocks):
        tt = b["t"]
        if tt["k"] != "switch" or 0 not in tt["v"]:
            continue
        p = op_place(tt["d"])
        if p is None:
            continue
        cp = flow.canon_place(f, p, d)
        if cp[0] == div_arg[0] and cp[1] == div_arg[1] and cp[2][-2:] == (("d", "Int"), ("f", "0")):
            zero_switch = (bi, tt)
    if zero_switch is None:
        return None
    zb, zt = zero_switch
    ztarget = zt["t"][zt["v"].index(0)]
    # edges that leave the "Div|Rem with int operands and zero divisor" region:
    removed = set()
    for tg in zt["t"]:
        if tg != ztarget:
            removed.add((zb, tg))
    op_switches = 0
    for bi, b in enumerate(f.blocks):
        tt = b["t"]
        if tt["k"] != "switch":
            continue
        l = op_local(tt["d"])
        if l is None:
            continue
        discr_of = None
        for bj, si, s, pj in d.stmts.get(l, []):
            if s["r"] == "discr":
                discr_of = (s["p"], f.local_ty(place_local(s["p"])))
        if discr_of is None:
            continue
        cp = flow.canon_place(f, discr_of[0], d)
        ty = _place_ty(db, f, discr_of[0])
        if "ScalarValue" in ty:
            # leaving because an operand is not an Int: the `otherwise`/non-Int edges
            for v, tg in zip(tt["v"] + [None], tt["t"]):
                if v != 0:
                    removed.add((bi, tg))
        elif "BinOpKind" in ty:
            op_switches += 1
            names = [v["n"] for v in db.adts["ast::BinOpKind"]["variants"]]
            for v, tg in zip(tt["v"] + [None], tt["t"]):
                if v is None or names[v] not in ("Div", "Rem"):
                    removed.add((bi, tg))
    if op_switches == 0:
        return None
    reach = flow.reach_avoiding_edges(f, 0, removed)
    if call_bb in reach:
        return None
    return "a zero divisor of `/` or `%%` is diverted at line %d before the table is consulted" % zt["ln"]


def _place_ty(db, f, place):
    # type of the place the discriminant is taken of: follow the local's type text
    l = place_local(place)
    t = f.local_ty(l)
    d = flow.Defs(f)
    cp = flow.canon_place(f, place, d)
    if cp[0] == "param":
        return f.local_ty(cp[1])
    return t


def _result_unwrapped(f, dest):
    """is the Option result passed to unwrap/expect"""
    work = [dest]
    seen = set()
    while work:
        l = work.pop()
        if l in seen:
            continue
        seen.add(l)
        for b in f.blocks:
            for s in b["s"]:
                if s["r"] == "use" and op_local(s["o"]) == l:
                    work.append(place_local(s["d"]))
            t = b["t"]
            if t["k"] == "call" and any(op_local(a) == l for a in t["a"]):
                c = t.get("f", "")
                if c in ("core::option::Option::<T>::unwrap", "core::option::Option::<T>::expect", "core::option::Option::<T>::unwrap_unchecked"):
                    return True
    return False


def _fn_emits(db, f):
    fs = [f] + db.children.get(f.id, [])
    if f.parent:
        fs.append(db.fns[f.parent])
    for g in fs:
        for _, t in g.calls():
            c = t.get("f", "")
            if c.endswith("Emitter::emit") or c.endswith("::emit"):
                return True
    return False


def _ternary_rule(expr_match):
    """find the Ternary arm; inside, a match/arms with Int(0) -> uses `right`, Int(_) -> uses `left`"""
    from rules.visit import names_used
    for vs, arm in arms.simple_table(expr_match):
        if "ast::Expr::Ternary" not in vs:
            continue
        for n in hir_walk(arm["b"]):
            if n.get("k") != "Match" or n.get("src") != "Normal":
                continue
            zero = other = None
            for a in n["arms"]:
                pats = _int_pat(a["p"])
                if pats == "zero":
                    zero = a
                elif pats == "any" and other is None:
                    other = a
            if zero is not None and other is not None:
                uz = names_used(zero["b"])
                uo = names_used(other["b"])
                return ("right" in uz or "right_value" in uz) and ("left" in uo or "left_value" in uo)
    return False


def _int_pat(p):
    """'zero' for (Some)?(ScalarValue::Int(0)), 'any' for (Some)?(ScalarValue::Int(_))"""
    while p["k"] in ("Ref", "Box", "Deref"):
        p = p["p"]
    if p["k"] == "TS" and p["p"] == "core::option::Option::Some" and p["ps"]:
        return _int_pat(p["ps"][0])
    if p["k"] == "TS" and p["p"] == "value::ScalarValue::Int" and p["ps"]:
        q = p["ps"][0]
        if q["k"] == "Lit" and q["v"] == "0" and not q.get("neg"):
            return "zero"
        if q["k"] in ("Wild", "Bind"):
            return "any"
    return None
