"""C10 Names resolve by lexical scope (structural clauses)."""
from common import Report
from facts import hir_walk, hir_children, op_local, op_place, place_local, place_proj
from rules import arms, flow, visit

EXPLANATION = (
    "Static rules over resolve::resolve_names::Visitor, resolve::rib::RibStacks::resolve and Defs::initial_ribs.  "
    "R-RIB-PAIR: in every block of visit_file / visit_item / visit_block the enter_new_rib / leave_rib calls form a "
    "balanced LIFO bracket sequence with identical (Namespace, RibKind) arguments.  R-PREDECLARE: items are added to "
    "scope before any statement / item body of the same block is resolved.  R-BARRIER: function and const items enter a "
    "LocalBarrier rib before their bodies are visited, and RibStacks::resolve returns an error, not the definition, for "
    "a hit in a rib that holds locals once a barrier was crossed.  R-DECL-ORDER: a declaration's initializer is "
    "resolved before the declared name enters scope.  R-FUNNEL: Rib::insert is called only from the redefinition-"
    "checking helper and the four documented global definers.  R-ALIAS-LANG: a mapfile alias of another language is "
    "skipped (the search continues with outer ribs) and only a rib of the requested language can answer.  "
    "R-RIB-ORDER: the initial rib stack lists instruction/register alias ribs before the builtin and enum constant "
    "ribs, so script-level constants shadow aliases.  Decides these code-shape conditions; renaming invariance of the "
    "compiled output (a relation between program pairs) is NOT decided.")
RULE = "instance = one block's rib bracket sequence / one ordering or guard obligation / one Rib::insert caller"

VIS = "<resolve::resolve_names::Visitor<'_, '_> as ast::ref_::Visit>::"
ENTER = "resolve::rib::RibStacks::enter_new_rib"
LEAVE = "resolve::rib::RibStacks::leave_rib"
RESOLVE = "resolve::rib::RibStacks::resolve"


def _arg_sig(a):
    x = arms.abstract(a)
    if x[0] == "path":
        return x[1]
    if x[0] == "ctor":
        return x[1]
    if a.get("k") == "Struct":
        lits = [arms.abstract(e)[1] for _, e in a["fs"] if arms.abstract(e)[0] == "lit"]
        return a["p"] + "{" + ",".join(lits) + "}"
    return str(x)


def blocks_of(node):
    """every Block-like node (function body, arm bodies, if/loop bodies, closures) under node"""
    for n in hir_walk(node):
        if n.get("k") in ("Block",) or (n.get("k") is None and "ss" in n):
            yield n
        if n.get("k") == "Loop":
            yield dict(n["b"], k="Block", ln=n.get("ln"))


def stmt_exprs(block):
    for s in block.get("ss", []):
        e = s.get("e") or s.get("i")
        if e:
            yield e
    if "e" in block:
        yield block["e"]


def top_calls(expr):
    """calls in an expression statement that are not inside a nested block / closure / match arm"""
    out = []
    st = [expr]
    while st:
        n = st.pop()
        if not isinstance(n, dict):
            continue
        if n.get("k") in ("Call", "MCall"):
            out.append(n)
        if n.get("k") == "If":
            st.append(n["c"])       # the condition is evaluated unconditionally; the branches are separate blocks
            continue
        if n.get("k") == "Match":
            st.append(n["s"])
            continue
        if n.get("k") in ("Block", "Closure", "Loop"):
            continue
        st.extend(reversed(list(hir_children(n))))
    return out


def _has_barrier_enter(node):
    return any(x.get('k') in ('Call', 'MCall') and x.get('f') == ENTER and any('LocalBarrier' in _arg_sig(a) for a in x['a']) for x in hir_walk(node))


def run(db, tier):
    rep = Report("C10", tier, EXPLANATION, RULE)
    for r, t in (("R-RIB-PAIR", "enter_new_rib / leave_rib are balanced (LIFO, same arguments) in every block"),
                 ("R-PREDECLARE", "items are in scope before statements / item bodies are resolved"),
                 ("R-BARRIER", "locals are not visible across a function / const boundary"),
                 ("R-DECL-ORDER", "an initializer is resolved before its variable is declared"),
                 ("R-FUNNEL", "Rib::insert is reachable only through the redefinition check or the documented global definers"),
                 ("R-ALIAS-LANG", "aliases resolve only in their own language; other languages' aliases are skipped, not final"),
                 ("R-RIB-ORDER", "alias ribs are outermost: constants shadow aliases")):
        rep.rule(r, t)

    # ---------------- R-RIB-PAIR
    n_pairs = 0
    for name in ("visit_file", "visit_item", "visit_block"):
        f = db.fn(VIS + name)
        rep.fn(f)
        bi = 0
        for blk in blocks_of(f.hir):
            seq = []
            for e in stmt_exprs(blk):
                for c in top_calls(e):
                    if c.get("f") in (ENTER, LEAVE):
                        seq.append((c["f"], tuple(_arg_sig(a) for a in c["a"]), c["ln"]))
            if not seq:
                continue
            bi += 1
            stack = []
            ok = True
            why = ""
            for fn_, args, ln in seq:
                if fn_ == ENTER:
                    stack.append((args, ln))
                else:
                    if not stack:
                        ok, why = False, "leave_rib%s at line %d without a matching enter" % (args, ln)
                        break
                    top, eln = stack.pop()
                    if top != args:
                        ok, why = False, "leave_rib%s at line %d closes enter_new_rib%s of line %d" % (args, ln, top, eln)
                        break
            if ok and stack:
                ok, why = False, "enter_new_rib%s at line %d is never left in this block" % stack[-1]
            n_pairs += len(seq) // 2
            rep.check(ok, "R-RIB-PAIR", "%s|block-%d" % (name, bi), "%s:%d" % (f.file, seq[0][2]),
                      "%d rib brackets balanced: %s" % (len(seq) // 2, " ".join(("(" if s[0] == ENTER else ")") + s[1][-1].rsplit("::", 1)[-1] for s in seq)), why)
        # no early exit between brackets: the functions have no `?` / return
        rets = [n for n in hir_walk(f.hir) if n.get("k") == "Ret"]
        rep.check(not rets, "R-RIB-PAIR", "%s|no-early-return" % name, f.loc, "no early return can skip a leave_rib", "an early return can leave a rib entered")

    # ---------------- R-PREDECLARE
    for name, later in (("visit_file", VIS + "visit_item"), ("visit_block", VIS + "visit_stmt")):
        f = db.fn(VIS + name)
        body = f.hir
        order = []
        for i, e in enumerate(stmt_exprs(arms.unwrap_block(body) if body.get("k") != "Block" else body)):
            calls = arms.calls_in(e)
            if any(c.endswith("::add_item_to_scope") for c in calls):
                order.append(("add", i))
            if any(c.rsplit("::", 1)[-1] == later.rsplit("::", 1)[-1] for c in calls):
                order.append(("visit", i))
        adds = [i for k, i in order if k == "add"]
        visits = [i for k, i in order if k == "visit"]
        rep.check(bool(adds) and bool(visits) and max(adds) < min(visits), "R-PREDECLARE", name, f.loc,
                  "add_item_to_scope sweep precedes %s" % later.rsplit("::", 1)[-1],
                  "items are not all added to scope before %s runs (statement order %s)" % (later.rsplit("::", 1)[-1], order))

    # ---------------- R-BARRIER (visitor side)
    f = db.fn(VIS + "visit_item")
    m = arms.first_match(f, db, "ast::Item")
    for vs, arm in arms.simple_table(m):
        for v in vs:
            if v not in ("ast::Item::Func", "ast::Item::ConstVar"):
                continue
            # the barrier must be entered in the SAME statement list that resolves the body, before it (so: whenever the
            # body is resolved, unconditionally)
            okb = False
            found_body = False
            for blk in blocks_of(arm["b"]):
                seq = []
                for e in stmt_exprs(blk):
                    direct = top_calls(e)
                    for n in direct:
                        c = n.get("f")
                        if c == ENTER and any("LocalBarrier" in _arg_sig(a) for a in n["a"]):
                            seq.append(("barrier", n["ln"]))
                    # the body visit may sit inside a loop / closure of this statement
                    for n in hir_walk(e):
                        if n.get("k") in ("Call", "MCall") and (n.get("f") or "").rsplit("::", 1)[-1] in ("visit_block", "visit_expr"):
                            if not any(x.get("k") == "Block" and x is not e and any(y is n for y in hir_walk(x)) and _has_barrier_enter(x) for x in hir_walk(e)):
                                seq.append(("body", n["ln"]))
                b = [ln for k, ln in seq if k == "barrier"]
                bodies = [ln for k, ln in seq if k == "body"]
                if bodies:
                    found_body = True
                    if b and min(b) < min(bodies):
                        okb = True
            rep.check(okb and found_body, "R-BARRIER", "visit_item|%s" % v.rsplit("::", 1)[-1],
                      "%s:%d" % (f.file, arm["ln"]), "LocalBarrier rib entered, unconditionally, before the body is resolved",
                      "the %s arm can resolve its body without first entering a LocalBarrier rib (the barrier is missing or only entered under a condition)" % v)
    # resolve side
    r = db.fn(RESOLVE)
    rep.fn(r)
    d = flow.Defs(r)
    dom = r.dominators()
    hl = flow.calls_to(r, "RibKind::holds_locals")
    ok_blocks = [bi for bi, b in enumerate(r.blocks) for s in b["s"]
                 if s["r"] == "agg" and s.get("adt") == "core::result::Result::Ok" and place_local(s["d"]) == 0]
    err_blocks = [bi for bi, b in enumerate(r.blocks) for s in b["s"]
                  if s["r"] == "agg" and s.get("adt") == "core::result::Result::Err" and place_local(s["d"]) == 0]
    ok = bool(hl) and bool(ok_blocks) and all(any(h in dom.get(o, ()) for h, _ in hl) for o in ok_blocks)
    rep.check(ok, "R-BARRIER", "resolve|holds_locals-dominates-Ok", r.loc, "every successful resolution first tests rib.kind.holds_locals()",
              "RibStacks::resolve can return a definition without testing whether the rib holds locals behind a barrier")
    # an Err exit is control dependent on holds_locals() == true
    guarded_err = False
    for h, t in hl:
        dl = place_local(t["d"])
        for sb in flow.switch_on(r, dl, d):
            sw = r.blocks[sb]["t"]
            # true edge = the `otherwise`/non-zero target
            true_targets = [tg for v, tg in zip(sw["v"] + [None], sw["t"]) if v != 0]
            for tt in true_targets:
                reach = r.reachable_from(tt)
                if any(e in reach and tt in dom.get(e, ()) for e in err_blocks):
                    guarded_err = True
    rep.check(guarded_err, "R-BARRIER", "resolve|barrier-crossed->Err", r.loc, "a local found behind a barrier yields an error",
              "no error exit of RibStacks::resolve is guarded by holds_locals()")
    rep.check(bool(flow.calls_to(r, "RibKind::local_barrier_cause")), "R-BARRIER", "resolve|tracks-barriers", r.loc,
              "resolve records crossed barriers (local_barrier_cause)", "resolve no longer tracks crossed barriers")
    # the barrier is discovered by the walk itself: every rib visited is asked for its barrier before its names are looked up
    lbc = [bi for bi, _ in flow.calls_to(r, "RibKind::local_barrier_cause")]
    gets = [bi for bi, t in r.calls() if (t.get("f") or "").endswith("::get") and "Ident" in " ".join(t.get("ga") or [])]
    per_iter = False
    for g in gets:
        h = flow.innermost_header(r, g)
        if h is None:
            continue
        in_loop = [b for b in lbc if flow.innermost_header(r, b) == h]
        # every path from the loop header to the lookup passes a barrier query of that iteration
        if in_loop:
            reach = r.reachable_from(h, avoid=set(in_loop))
            if g not in reach:
                per_iter = True
    rep.check(per_iter, "R-BARRIER", "resolve|barrier asked of every rib walked", r.loc,
              "each rib is asked local_barrier_cause() before its definitions are searched, so the barrier state belongs to this walk",
              "RibStacks::resolve looks names up in a rib without first asking that rib whether it is a barrier: the barrier is taken from state "
              "kept outside the walk, which goes stale when a nested item ends (locals of an enclosing function become visible again)")

    # ---------------- R-DECL-ORDER
    f = db.fn(VIS + "visit_stmt")
    rep.fn(f)
    m = arms.first_match(f, db, "ast::StmtKind")
    done = False
    for vs, arm in arms.simple_table(m):
        if "ast::StmtKind::Declaration" in vs:
            init_ln = [n["ln"] for n in hir_walk(arm["b"]) if n.get("k") in ("Call", "MCall") and (n.get("f") or "").rsplit("::", 1)[-1] == "visit_expr"]
            decl_ln = [n["ln"] for n in hir_walk(arm["b"]) if n.get("k") in ("Call", "MCall") and (n.get("f") or "").endswith("add_to_rib_with_redefinition_check")]
            done = True
            rep.check(bool(init_ln) and bool(decl_ln) and max(init_ln) < min(decl_ln), "R-DECL-ORDER", "visit_stmt|Declaration", "%s:%d" % (f.file, arm["ln"]),
                      "initializer is visited before the name is added to the rib", "the declared name is in scope while its own initializer is resolved")
    rep.check(done, "R-DECL-ORDER", "visit_stmt|has-Declaration-arm", f.loc, "visit_stmt handles Declaration explicitly", "visit_stmt has no Declaration arm")
    # every other statement kind is walked
    stmt_children = visit.walker_children(db, "ast::ref_::walk_stmt", "ast::StmtKind")
    visit.check_visitor(db, rep, "R-DECL-ORDER", VIS + "visit_stmt", "ast::StmtKind", stmt_children, {"ast::ref_::walk_stmt"})

    # ---------------- R-FUNNEL
    allowed = {
        "resolve::resolve_names::Visitor::<'_, '_>::add_to_rib_with_redefinition_check": "script-level definitions: redefinition is reported",
        "context::defs::<impl context::CompilerContext<'_>>::define_global_reg_alias": "mapfile register alias: last definition wins (documented)",
        "context::defs::<impl context::CompilerContext<'_>>::define_global_ins_alias": "mapfile instruction alias: last definition wins (documented)",
        "context::defs::<impl context::CompilerContext<'_>>::define_enum_const": "enum const: duplicates go through the deferred equality check",
        "context::defs::<impl context::CompilerContext<'_>>::define_builtin_const_var": "builtin constants",
    }
    callers = []
    for g in db.fns.values():
        if g.gen:
            continue
        for bi, t in g.calls():
            if t.get("f") == "resolve::rib::Rib::insert":
                callers.append((g, t))
    rep.floor("Rib::insert call sites", len(callers), 5)
    for g, t in callers:
        root = g.parent or g.id
        rep.check(root in allowed, "R-FUNNEL", "Rib::insert|%s" % root, "%s:%d" % (g.file, t["ln"]), allowed.get(root, ""),
                  "Rib::insert called from %s, which is neither the redefinition-checking helper nor a documented global definer" % root)
    h = db.fn("resolve::resolve_names::Visitor::<'_, '_>::add_to_rib_with_redefinition_check")
    rep.fn(h)
    emits = any(t.get("f", "").endswith("::emit") for g in db.with_closures(h) for _, t in g.calls())
    rep.check(emits, "R-FUNNEL", "redefinition-check|emits", h.loc, "a redefinition is emitted as an error", "add_to_rib_with_redefinition_check no longer emits on redefinition")

    # names are looked up (by spelling) only by the resolver: everything after resolution goes through the Resolutions table
    lookups = []
    for g in db.fns.values():
        if g.gen:
            continue
        for bi, t in g.calls():
            if (t.get("f") or "") in ("resolve::rib::Rib::get", "resolve::rib::Rib::get_mut") or (t.get("f") or "").endswith("RibStacks::resolve"):
                lookups.append((g, t))
    rep.floor("rib lookup call sites", len(lookups), 1)
    for g, t in lookups:
        root = g.parent or g.id
        inside = root.startswith("resolve::") or root.startswith("<resolve::")
        rep.check(inside, "R-FUNNEL", "rib lookup|%s" % root, "%s:%d" % (g.file, t["ln"]), "lookup by spelling happens inside the resolver",
                  "%s looks a name up in a rib by its spelling, outside name resolution: a local or constant spelled like a register alias is taken for the "
                  "register, whatever the identifier was resolved to" % root)

    # declarations are rejected only for a clash in their own rib: the statement/block/item visitors raise no error of their own
    for nm in ("visit_stmt", "visit_block", "visit_item"):
        g = db.fn(VIS + nm)
        rep.fn(g)
        em = [t["ln"] for gg in db.with_closures(g) for _, t in gg.calls()
              if (t.get("f") or "").endswith("::emit") or (t.get("f") or "").endswith("Diagnostic::error")]
        rep.check(not em, "R-FUNNEL", "%s|rejects only through the redefinition check" % nm, g.loc,
                  "no diagnostic is raised here; a declaration can only be refused by add_to_rib_with_redefinition_check (same rib)",
                  "%s raises a diagnostic of its own (line %s): a declaration can be rejected for names that are not in its own block "
                  "(shadowing an outer declaration or a parameter is legal)" % (nm, em))

    # ---------------- R-ALIAS-LANG
    # the loop header of the rib walk
    headers = [bi for bi, t in r.calls() if t.get("f", "").endswith("Iterator::next")]
    lang_assign = []
    for bi, b in enumerate(r.blocks):
        for s in b["s"]:
            if s["r"] == "agg" and s.get("adt") == "core::option::Option::Some" and "LanguageKey" in r.local_ty(place_local(s["d"])) and not place_proj(s["d"]):
                lang_assign.append(bi)
    ok = bool(headers) and bool(lang_assign) and all(any(h in r.reachable_from(la) for h in headers) for la in lang_assign)
    rep.check(ok, "R-ALIAS-LANG", "resolve|other-language-alias-is-skipped", r.loc,
              "after finding an alias of another language the walk continues with the next (outer) rib",
              "finding an alias of another language ends the rib walk: a same-named alias of the right language in an outer rib is never found")
    # the Ok return for a mapfile rib is guarded by the language comparison
    cmps = [c for c in flow.comparisons(r, d) if c["op"] in ("Eq", "Ne")]
    lang_cmp = [c for c in cmps if any(s[0] == "param" and s[1] == 4 for s in c["a"] | c["b"]) or any("LanguageKey" in str(s) for s in c["a"] | c["b"])]
    rep.check(bool(lang_cmp), "R-ALIAS-LANG", "resolve|language-compared", r.loc, "the alias language is compared with the rib's language",
              "RibStacks::resolve no longer compares alias_language with the mapfile rib's language")

    # path rule: from the point where the rib is known to be a Mapfile rib, the successful return is reachable only
    # through the language comparison (a mapfile alias is never accepted without comparing languages, also when the
    # use site has no language, i.e. in a const context)
    mf_blocks = []
    for bi, b in enumerate(r.blocks):
        for s_ in b["s"]:
            txt = str(s_.get("o", "")) + str(s_.get("p", ""))
            if "Mapfile" in txt and "language" in txt:
                mf_blocks.append(bi)
    cmp_blocks = set(c["bb"] for c in lang_cmp)
    ok_ret = [bi for bi, b in enumerate(r.blocks) for s_ in b["s"] if s_["r"] == "agg" and (s_.get("adt") or "").endswith("Result::Ok")]
    hdrs = set(headers)
    okp = bool(mf_blocks) and bool(cmp_blocks) and bool(ok_ret)
    for mb in mf_blocks:
        reach = r.reachable_from(mb, avoid=cmp_blocks | hdrs)
        if any(o in reach for o in ok_ret):
            okp = False
    rep.check(okp, "R-ALIAS-LANG", "resolve|no mapfile alias without the comparison", r.loc,
              "every path from a Mapfile rib hit to Ok passes the language comparison",
              "a mapfile alias can be returned on a path that skips the language comparison (e.g. when the use site has no language): "
              "register / instruction aliases become visible in const contexts or other languages")

    # innermost-first walk
    revs = [t for _, t in r.calls() if t.get("f", "").endswith("IntoIterator::into_iter") and "Rib" in " ".join(t.get("ga") or [])]
    rep.check(bool(revs) and all("adapters::rev::Rev<" in (t.get("ga") or [""])[0] for t in revs), "R-RIB-ORDER", "resolve|innermost first", r.loc,
              "the rib stack is walked in reverse (innermost rib first)", "the rib stack is not walked innermost-first: outer declarations shadow inner ones")
    # which rib kinds hold locals (these are the ones a function / const boundary hides)
    hl = db.fn("resolve::rib::RibKind::holds_locals")
    rep.fn(hl)
    mt = arms.first_match(hl, db)
    tab = {}
    for arm in (mt["arms"] if mt else []):
        for sg in arms.pat_sig(arm["p"]):
            tab[(sg or "_").rsplit("::", 1)[-1]] = arms.abstract(arm["b"])[1] if arms.abstract(arm["b"])[0] == "lit" else "?"
    rep.check(tab.get("Locals") == "true" and tab.get("Params") == "true" and tab.get("_", "false") == "false", "R-BARRIER", "holds_locals|table", hl.loc,
              "Locals and Params are the local-holding ribs", "holds_locals is %s: locals or parameters leak into nested functions / consts" % tab)

    # ---------------- R-RIB-ORDER
    g = db.fn("context::defs::Defs::initial_ribs")
    rep.fn(g)
    order = []
    dg = flow.Defs(g)
    # walk the (straight-line) CFG from the entry; at each extend()/push() into the result, which GlobalRibs field feeds it?
    bb, seen_bb = 0, set()
    while bb is not None and bb not in seen_bb:
        seen_bb.add(bb)
        t = g.blocks[bb]["t"]
        if t["k"] == "call" and t.get("f", "").rsplit("::", 1)[-1] in ("extend", "push") and len(t["a"]) > 1:
            l = op_local(t["a"][1])
            for fld in _deep_fields(g, dg, l):
                if fld in ("ins_alias_ribs", "reg_alias_ribs", "builtin_const_rib", "enum_const_rib") and fld not in order:
                    order.append(fld)
        nxt = g.succ()[bb]
        bb = nxt[0] if nxt else None
    alias_idx = [i for i, n in enumerate(order) if n in ("ins_alias_ribs", "reg_alias_ribs")]
    const_idx = [i for i, n in enumerate(order) if n in ("builtin_const_rib", "enum_const_rib")]
    rep.check(len(alias_idx) == 2 and len(const_idx) == 2 and max(alias_idx) < min(const_idx), "R-RIB-ORDER", "initial_ribs|aliases-outermost", g.loc,
              "rib order %s: constants are searched before (shadow) aliases" % order,
              "initial rib order %s: register/instruction aliases would shadow builtin or enum constants" % order)
    # ---------------- R-LANG-SCOPE: the language that names are resolved in is restored after a nested item
    from rules import hirq
    rep.rule("R-LANG-SCOPE", "AssignLanguagesVisitor::visit_item sets the language for the item's body and RESTORES the enclosing language "
                             "afterwards (push / walk / pop, or save / walk / restore the saved value): register and instruction aliases are "
                             "only valid in their own language, also after a nested const/func item inside a script body")
    al = db.fn("<passes::resolution::AssignLanguagesVisitor<'_, '_> as ast::mut_::VisitMut>::visit_item")
    rep.fn(al)
    La = hirq.lets(al)
    walks = hirq.call_seq(al.hir, ("ast::mut_::walk_item",))
    rep.floor("walk_item calls in AssignLanguagesVisitor::visit_item", len(walks), 1)
    seq = hirq.call_seq(al.hir, ("Vec::<T, A>::push", "Vec::<T, A>::pop", "ast::mut_::walk_item"))
    names = [c["f"].rsplit("::", 1)[-1] for c in seq]
    stack_ok = True
    i = 0
    n_w = 0
    while i < len(names):
        if names[i] == "walk_item":
            n_w += 1
            if not (i > 0 and names[i - 1] == "push" and i + 1 < len(names) and names[i + 1] == "pop"):
                stack_ok = False
        i += 1
    # alternative: save / restore through a local
    assigns = [n for n in hir_walk(al.hir) if n.get("k") == "Assign"]
    restore_ok = False
    if walks and assigns:
        wl = max(c["ln"] for c in walks)
        after = [a for a in assigns if a.get("ln", 0) > wl]
        before_reads = {}
        for nm, inits in La.items():
            for init in inits:
                if init.get("ln", 0) < min(c["ln"] for c in walks):
                    flds = [v for t_, v in hirq.features(al, init, {}) if t_ == "field"]
                    if flds:
                        before_reads[nm] = flds
        for a in after:
            lf = [v for t_, v in hirq.features(al, a["l"], {}) if t_ == "field"]
            rl = [v for t_, v in hirq.features(al, a["r"], {}) if t_ == "local"]
            if any(nm in before_reads and set(before_reads[nm]) & set(lf) for nm in rl):
                restore_ok = True
    rep.check((stack_ok and n_w >= 1) or restore_ok, "R-LANG-SCOPE", "visit_item|restore", al.loc,
              "every walk_item is bracketed by push/pop of the language stack" if stack_ok else "the saved language is restored after the walk",
              "the language in effect before a nested item is not restored after it (calls: %s): everything after a `const` or function item "
              "nested in a script is resolved in the wrong language" % names)
    for nm in ("visit_var", "visit_callable_name"):
        vv = db.fn("<passes::resolution::AssignLanguagesVisitor<'_, '_> as ast::mut_::VisitMut>::" + nm)
        rep.fn(vv)
    if not any(not i["ok"] for i in rep.instances):
        rep.floor("rib bracket pairs", n_pairs, 8)
    return rep


def _deep_fields(f, d, local, depth=0, seen=None):
    """field names a value derives from, following every call's arguments (iterator adaptors, clone, ...)"""
    seen = seen if seen is not None else set()
    if local is None or local in seen or depth > 8:
        return set()
    seen.add(local)
    out = set()
    for s in d.sources(local):
        if s[0] == "field":
            out.add(s[2])
    for bi, t in d.calls.get(local, []):
        for a in t["a"]:
            l = op_local(a)
            if l is not None:
                out |= _deep_fields(f, d, l, depth + 1, seen)
    for bi, si, st, pj in d.stmts.get(local, []):
        for k in ("o", "a", "b"):
            if k in st and isinstance(st[k], dict):
                l = op_local(st[k])
                if l is not None:
                    out |= _deep_fields(f, d, l, depth + 1, seen)
    return out
