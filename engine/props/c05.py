"""C05 Scratch registers never collide with registers the script uses (structural clauses)."""
import re
from common import Report, Broken
from facts import hir_walk, op_local, op_place, place_local, place_proj
from rules import arms, flow, visit

EXPLANATION = (
    "Static rules over llir::lower::stackless::assign_registers and its helpers.  R-TRAVERSAL (sibling traversals over "
    "LowerArg): the collector of explicitly used registers and the substitution walk each_lower_arg both recurse into "
    "LowerArg::DiffSwitch (self-recursive call in the DiffSwitch arm, any depth), the collector reads registers from "
    "Raw arguments of every Known-args instruction.  R-POOL: the scratch pool is initialised from "
    "hooks.general_use_regs(), filtered by the explicitly-used map (retain + contains_key) in a block that dominates "
    "the first pop, filtered by each parameter register inside the parameter loop, and registers bound to locals come "
    "only from pool pops or param registers.  R-EXHAUST: an empty pool goes through ok_or_else(script_too_complex) and "
    "`?`.  R-ANTISCRATCH: every path through the Instr arm of the statement loop asks "
    "hooks.instr_disables_scratch_regs, every path through the RegAlloc arm records has_used_scratch, the Ok return of "
    "assign_registers is unreachable when both flags are set (an Err exit is dominated by the two Some-edges), and "
    "PersistentState::finish has the file-wide variant.  Decides these code-shape conditions, not the absence of "
    "collisions for concrete programs.")
RULE = "instance = one traversal arm / pool operation / guard; all non-trivial"

AR = "llir::lower::stackless::assign_registers"
GE = "llir::lower::stackless::get_explicitly_used_regs"
ELA = "llir::lower::stackless::each_lower_arg"
LA = "llir::lower::LowerArg"


def rule_traversal(db, rep, f):
    """R-TRAVERSAL: shared with C02 (a register the collector misses is clobbered by a temporary)"""
    # ---------------- R-TRAVERSAL
    collectors = [g for g in db.fns.values() if g.id == GE or g.id.startswith(GE + "::")]
    rec_ok = raw_ok = False
    for g in collectors:
        rep.fn(g)
        for m in visit.find_matches(g, db, LA) if g.hir else []:
            for arm in m["arms"]:
                vs = [v for v, _ in visit.variant_alternatives(arm["p"])]
                calls = arms.calls_in(arm["b"])
                if LA + "::DiffSwitch" in vs and g.id in calls:
                    rec_ok = True
                if LA + "::Raw" in vs and "llir::SimpleArg::get_reg_id" in calls:
                    raw_ok = True
        # closure-based collectors: a DiffSwitch arm that does not call the collector itself is not recursive
    gtop = db.fn(GE)
    rep.check(rec_ok, "R-TRAVERSAL", "collector|DiffSwitch-recursive", gtop.loc,
              "the collector calls itself on the cases of a DiffSwitch (nested switches at any depth are seen)",
              "get_explicitly_used_regs does not recurse into LowerArg::DiffSwitch: a register named only inside a (nested) difficulty switch stays in the scratch pool")
    rep.check(raw_ok, "R-TRAVERSAL", "collector|Raw-get_reg_id", gtop.loc, "Raw arguments contribute their register id",
              "the collector no longer reads SimpleArg::get_reg_id from Raw arguments")
    # the collector visits every instruction with known args: no filtering adaptor other than the Known/Instr pattern
    tops = " ".join(arms.calls_in(gtop.hir))
    n_match = 0
    sig_ok = False
    for n in hir_walk(gtop.hir):
        if n.get("k") in ("LetE", "Match"):
            pats = [n["p"]] if n.get("k") == "LetE" else [a["p"] for a in n["arms"]]
            for p in pats:
                sg = arms.pat_sig(p)
                if any(s and "LowerStmt::Instr" in s and "LowerArgs::Known" in s for s in sg):
                    sig_ok = True
    rep.check(sig_ok, "R-TRAVERSAL", "collector|all-known-instrs", gtop.loc, "the collector looks at every LowerStmt::Instr with LowerArgs::Known",
              "the collector's statement pattern is no longer `LowerStmt::Instr(LowerInstr { args: LowerArgs::Known(..), .. })`")
    e = db.fn(ELA)
    rep.fn(e)
    erec = False
    for n in hir_walk(e.hir):
        if n.get("k") == "If" and n["c"].get("k") == "LetE":
            sg = arms.pat_sig(n["c"]["p"])
            if any(s and s.startswith(LA + "::DiffSwitch") for s in sg) and ELA in arms.calls_in(n["t"]):
                erec = True
    first_call_is_func = False
    body = arms.unwrap_block(e.hir)
    rep.check(erec, "R-TRAVERSAL", "each_lower_arg|DiffSwitch-recursive", e.loc, "each_lower_arg recurses into DiffSwitch cases",
              "each_lower_arg does not recurse into LowerArg::DiffSwitch: locals inside difficulty switches keep no register")
    uses = [t for _, t in f.calls() if t.get("f") == ELA]
    rep.check(len(uses) >= 1, "R-TRAVERSAL", "assign_registers|uses-each_lower_arg", f.loc, "assign_registers substitutes through each_lower_arg",
              "assign_registers no longer substitutes locals through each_lower_arg")



def run(db, tier):
    rep = Report("C05", tier, EXPLANATION, RULE)
    rep.rule("R-TRAVERSAL", "register collection and register substitution walk the same LowerArg shapes, recursively through DiffSwitch")
    rep.rule("R-POOL", "scratch registers come from general_use_regs() minus explicitly used and parameter registers")
    rep.rule("R-EXHAUST", "an exhausted pool is a `script too complex` error")
    rep.rule("R-ANTISCRATCH", "scratch use together with an anti-scratch instruction is an error")
    f = db.fn(AR)
    rep.fn(f)
    d = flow.Defs(f)

    rule_traversal(db, rep, f)

    # ---------------- R-POOL
    gen = flow.calls_to(f, "LanguageHooks::general_use_regs")
    rep.check(len(gen) == 1, "R-POOL", "pool|general_use_regs", f.loc, "the pool is hooks.general_use_regs()", "pool is not initialised from general_use_regs()")
    pops = flow.calls_to(f, "alloc::vec::Vec::<T, A>::pop")
    rep.check(len(pops) == 1, "R-POOL", "pool|single-pop", f.loc, "registers are taken from the pool by one pop()", "expected exactly one Vec::pop in assign_registers, found %d" % len(pops))
    closures = {c.id: c for c in db.children.get(f.id, [])}
    retain_explicit = []
    retain_param = []
    for bi, t in flow.calls_to(f, "alloc::vec::Vec::<T, A>::retain"):
        # the closure argument: an aggregate closure
        cl = None
        l = op_local(t["a"][1]) if len(t["a"]) > 1 else None
        if l is not None:
            for bj, si, s, pj in d.stmts.get(l, []):
                if s["r"] == "agg" and s.get("ak") == "closure":
                    cl = closures.get(s.get("adt"))
        if cl is None:
            continue
        ccalls = [tt.get("f", "") for _, tt in cl.calls()]
        if any(c.endswith("BTreeMap::<K, V, A>::contains_key") for c in ccalls):
            # polarity: the closure keeps a register iff it is NOT in the explicit-use map
            dcl = flow.Defs(cl)
            ret_srcs = dcl.sources(0) if hasattr(dcl, "sources") else set()
            negs = [st for b_ in cl.blocks for st in b_["s"] if st["r"] == "unop" and st.get("op") == "Not"]
            neg_of_contains = any(flow.has_call_source(dcl._op_sources(st["o"], 0, set(), True), "contains_key") for st in negs)
            ret_is_neg = any(place_local(st["d"]) == 0 or any(place_local(st2["d"]) == 0 and op_local(st2.get("o", {})) == place_local(st["d"])
                                                               for b2 in cl.blocks for st2 in b2["s"] if st2["r"] == "use")
                             for st in negs)
            rep.check(neg_of_contains and ret_is_neg and len(negs) == 1, "R-POOL", "pool|retain-explicit polarity", "%s:%d" % (cl.file, cl.line),
                      "retain keeps a register iff !explicitly_used_regs.contains_key(reg)",
                      "the retain over the scratch pool does not keep exactly the registers that are NOT explicitly used (negations of contains_key: %d)" % len(negs))
            retain_explicit.append(bi)
        elif any(c["op"] == "Ne" for c in flow.comparisons(cl)):
            retain_param.append(bi)
    dom = f.dominators()

    def loop_header(bb):
        """the innermost `Iterator::next` call block dominating bb (the for-loop the block sits in), else bb"""
        hs = [hb for hb, tt in f.calls() if tt.get("f", "").endswith("Iterator::next") and hb in dom.get(bb, ())]
        return max(hs, key=lambda h: len(dom.get(h, ()))) if hs else bb
    retain_explicit = [loop_header(r) for r in retain_explicit]
    ok = bool(retain_explicit) and bool(pops) and all(any(r in dom.get(p[0], ()) for r in retain_explicit) for p in pops)
    rep.check(ok, "R-POOL", "pool|retain-explicit-dominates-pop", f.loc, "explicitly used registers are removed from the pool before any pop",
              "no `retain(|reg| !explicitly_used_regs.contains_key(reg))` dominates the pop")
    # the map consulted by that retain is the result of get_explicitly_used_regs
    ge_calls = flow.calls_to(f, GE)
    rep.check(len(ge_calls) == 1 and bool(retain_explicit) and all(ge_calls[0][0] in dom.get(r, ()) for r in retain_explicit), "R-POOL", "pool|explicit-map-source", f.loc,
              "the explicit-use map is computed by get_explicitly_used_regs before filtering", "get_explicitly_used_regs is not called before the pool is filtered")
    prs = flow.calls_to(f, "OldeExportedSub::param_registers")
    ok = bool(retain_param) and bool(prs) and all(prs[0][0] in dom.get(r, ()) for r in retain_param)
    rep.check(ok, "R-POOL", "pool|retain-param", f.loc, "each parameter register is removed from the pool (retain with `!=` inside the parameter loop)",
              "parameter registers are no longer removed from the scratch pool")
    # provenance of values inserted into local_regs (HashMap<DefId, RegId>::insert)
    ins = [(bi, t) for bi, t in f.calls() if t.get("f", "").endswith("HashMap::<K, V, S, A>::insert") and (t.get("ga") or ["", ""])[:2] == ["resolve::DefId", "resolve::RegId"]]
    rep.floor("local_regs.insert sites", len(ins), 2)
    for i, (bi, t) in enumerate(ins):
        l = op_local(t["a"][2]) if len(t["a"]) > 2 else None
        srcs = d.sources(l) if l is not None else set()
        from_pop = flow.has_call_source(srcs, "Vec::<T, A>::pop")
        from_param = flow.has_call_source(srcs, "Iterator::next") and any(x in dom.get(bi, ()) for x, _ in prs)
        rep.check(from_pop or from_param, "R-POOL", "local_regs|insert-%d" % (i + 1), "%s:%d" % (f.file, t["ln"]),
                  "register comes from %s" % ("the pool pop" if from_pop else "param_registers"),
                  "a register bound to a local comes neither from the pool nor from param_registers")

    # ---------------- R-EXHAUST
    ok = False
    if pops:
        dest = place_local(pops[0][1]["d"])
        for bi, t in f.calls():
            if t.get("f") == "core::option::Option::<T>::ok_or_else" and op_local(t["a"][0]) == dest:
                l = op_local(t["a"][1])
                cl = None
                for bj, si, s, pj in d.stmts.get(l, []):
                    if s["r"] == "agg" and s.get("ak") == "closure":
                        cl = closures.get(s.get("adt"))
                if cl and any(tt.get("f") == "llir::lower::stackless::script_too_complex" for _, tt in cl.calls()):
                    r = place_local(t["d"])
                    ok = any(tt.get("f") == "core::ops::try_trait::Try::branch" and op_local(tt["a"][0]) == r for _, tt in f.calls())
    rep.check(ok, "R-EXHAUST", "pop|none->script_too_complex", f.loc, "pop().ok_or_else(script_too_complex)?",
              "an empty pool no longer produces the `script too complex` error")
    stc = db.fn("llir::lower::stackless::script_too_complex")
    rep.fn(stc)
    dd = flow.Defs(stc)
    sev = set()
    for bi, t in stc.calls():
        if t.get("f", "").endswith("::emit"):
            l = op_local(t["a"][1])
            sev |= set(s[1].rsplit("::", 1)[-1] for s in (dd.sources(l) if l is not None else set()) if s[0] == "call" and s[1].startswith("diagnostic::Diagnostic::"))
    rep.check("error" in sev, "R-EXHAUST", "script_too_complex|error-severity", stc.loc, "script_too_complex emits an error", "script_too_complex does not emit an error-severity diagnostic")

    # ---------------- R-ANTISCRATCH
    # the statement loop: header = block of the Iterator::next whose item is matched on LowerStmt
    variants = [v["n"] for v in db.adts["llir::lower::LowerStmt"]["variants"]]
    sw = None
    for bi, b in enumerate(f.blocks):
        t = b["t"]
        if t["k"] != "switch":
            continue
        l = op_local(t["d"])
        for bj, si, s, pj in d.stmts.get(l, []) if l is not None else []:
            if s["r"] == "discr":
                cp = flow.canon_place(f, s["p"], d)
                ty = None
                # type of the place: look for the LowerStmt in the deref'd local type
                base_ty = f.local_ty(place_local(s["p"]))
                if "llir::lower::LowerStmt" in base_ty and "Sp<" not in base_ty.replace("pos::span::Sp<llir::lower::LowerStmt>", ""):
                    sw = (bi, t)
    ok_i = ok_a = False
    if sw:
        bi, t = sw
        tg = {}
        for v, target in zip(t["v"], t["t"]):
            tg[variants[v]] = target
        header = None
        for hb, tt in f.calls():
            if tt.get("f", "").endswith("Iterator::next") and hb in dom.get(bi, ()):
                header = hb      # the innermost dominating `next`
        if header is not None and "Instr" in tg:
            want = [x for x, _ in flow.calls_to(f, "LanguageHooks::instr_disables_scratch_regs")]
            reach = f.reachable_from(tg["Instr"], avoid=set(want))
            ok_i = bool(want) and header not in reach
        if header is not None and "RegAlloc" in tg:
            want = [x for x, tt in f.calls() if tt.get("f") == "core::option::Option::<T>::get_or_insert" and x in f.reachable_from(tg["RegAlloc"], avoid={header})]
            reach = f.reachable_from(tg["RegAlloc"], avoid=set(want))
            ok_a = bool(want) and header not in reach
    rep.check(sw is not None, "R-ANTISCRATCH", "loop|switch-on-LowerStmt", f.loc, "statement loop dispatches on LowerStmt", "cannot find the statement dispatch of assign_registers")
    rep.check(ok_i, "R-ANTISCRATCH", "Instr-arm|must-ask-instr_disables_scratch_regs", f.loc,
              "every path through the Instr arm asks hooks.instr_disables_scratch_regs(opcode)",
              "an instruction can pass through the Instr arm without instr_disables_scratch_regs being consulted (e.g. a blob-argument instruction skipped early)")
    rep.check(ok_a, "R-ANTISCRATCH", "RegAlloc-arm|records-has_used_scratch", f.loc, "every register allocation records has_used_scratch",
              "a register can be allocated without recording has_used_scratch")
    # final guard: an Err exit dominated by Some-edges of two Option<Span> flags
    flags = set()
    for bi, t in f.calls():
        if t.get("f") == "core::option::Option::<T>::get_or_insert" and (t.get("ga") or [""])[0] == "pos::span::Span":
            p = op_place(t["a"][0])
            cp = flow.canon_place(f, p, d) if p is not None else None
            if cp and cp[0] == "local":
                flags.add(cp[1])
    some_edges = {}
    for bi, b in enumerate(f.blocks):
        t = b["t"]
        if t["k"] == "switch":
            l = op_local(t["d"])
            for bj, si, s, pj in d.stmts.get(l, []) if l is not None else []:
                if s["r"] == "discr" and not place_proj(s["p"]) and place_local(s["p"]) in flags and 1 in t["v"]:
                    some_edges.setdefault(place_local(s["p"]), []).append(t["t"][t["v"].index(1)])
    err_blocks = flow.error_exit_blocks(f)
    guarded = False
    for eb in err_blocks:
        ds = dom.get(eb, set())
        n = sum(1 for fl, edges in some_edges.items() if any(e in ds for e in edges))
        if n >= 2:
            guarded = True
    rep.check(guarded, "R-ANTISCRATCH", "assign_registers|both-flags->Err", f.loc,
              "an error exit is taken when both has_anti_scratch_ins and has_used_scratch are set",
              "no error exit of assign_registers is guarded by both scratch flags")
    pf = db.fn("llir::lower::stackless::PersistentState::finish")
    rep.fn(pf)
    dpf = flow.Defs(pf)
    domp = pf.dominators()
    fld_edges = {}
    for bi, b in enumerate(pf.blocks):
        t = b["t"]
        if t["k"] == "switch":
            l = op_local(t["d"])
            for bj, si, s, pj in dpf.stmts.get(l, []) if l is not None else []:
                if s["r"] == "discr":
                    fl = [e[1] for e in place_proj(s["p"]) if isinstance(e, list) and e[0] == "f"]
                    if fl and 1 in t["v"]:
                        fld_edges.setdefault(fl[-1], []).append(t["t"][t["v"].index(1)])
    ok = False
    for eb in flow.error_exit_blocks(pf):
        ds = domp.get(eb, set())
        if all(any(e in ds for e in fld_edges.get(k, [])) for k in ("has_anti_scratch_ins", "has_used_scratch")):
            ok = True
    rep.check(ok, "R-ANTISCRATCH", "PersistentState::finish|both-flags->Err", pf.loc, "file-wide variant: both flags set => error",
              "PersistentState::finish no longer fails when both file-wide scratch flags are set")
    # ---------------- R-SCOPE-END: a local's register is released at the END of its block
    from rules import hirq
    rep.rule("R-SCOPE-END", "the ScopeEnd statement (-> RegFree) of a local is appended at the end of the block that declares it, after the "
                            "whole block was walked: a local stays allocated for its entire lexical scope (its last textual mention is not "
                            "its last use when a backward jump follows)")
    sv = db.fn("<passes::desugar_blocks::InsertLocalScopeEndsVisitor<'_> as ast::mut_::VisitMut>::visit_block")
    rep.fn(sv)
    Ls = hirq.lets(sv)
    pushes, others = [], []
    for c in hirq.call_seq(sv.hir):
        fe = set()
        for a in c.get("a", []):
            fe |= hirq.features(sv, a, Ls)
        if hirq.has_ctor(fe, "StmtKind::ScopeEnd"):
            (pushes if c["f"].endswith("Vec::<T, A>::push") else others).append(c)
    walk_ln = [c["ln"] for c in hirq.call_seq(sv.hir, ("ast::mut_::walk_block",))]
    ok = bool(pushes) and not others and bool(walk_ln) and all(p_["ln"] > max(walk_ln) for p_ in pushes)
    rep.check(ok, "R-SCOPE-END", "visit_block|appended at block end", sv.loc, "ScopeEnd is push()ed onto the block after walk_block_mut",
              "ScopeEnd statements are placed with %s instead of being appended at the end of the block: a local can be released before the "
              "end of its scope and its register handed to a temporary while a backward jump still reaches a use"
              % (sorted(set(c["f"].rsplit("::", 1)[-1] for c in others)) or "nothing"))
    dv = db.fn("<passes::desugar_blocks::InsertLocalScopeEndsVisitor<'_> as ast::mut_::VisitMut>::visit_stmt")
    rep.fn(dv)
    decl_push = any(c["f"].endswith("Vec::<T, A>::push") for c in hirq.call_seq(dv.hir))
    rep.check(decl_push, "R-SCOPE-END", "visit_stmt|every declared local is recorded", dv.loc, "declarations push their DefId onto the current block's list",
              "declared locals are no longer recorded for release")
    # ---------------- R-ANTISCRATCH: the ANM hook answers for exactly the games whose built-in table has the instruction
    _anm_game_sets(db, rep)
    # ---------------- R-POOL-DECLARED: every register of a general-purpose pool is a register the game has (built-in
    # register table of that game declares it, with the type of the pool it sits in)
    _pool_declared(db, rep)
    return rep


def _game_order(db):
    adt = db.adts.get("game::Game")
    return ["game::Game::" + v["n"] for v in adt["variants"]] if adt else []


_LETS = {}


def _eval_game_pred(n, game, games, opcode_ok=True):
    """evaluate a boolean HIR expression over `self.game` for one concrete game (opcode equalities count as true);
    returns True / False / None (not understood)"""
    k = n.get("k")
    if k in ("Paren", "Use") and "e" in n:
        return _eval_game_pred(n["e"], game, games)
    if k == "Unary" and n.get("op") == "!":
        v = _eval_game_pred(n["e"], game, games)
        return None if v is None else not v
    if k == "Binary" and n.get("op") in ("&&", "||"):
        a, b = _eval_game_pred(n["l"], game, games), _eval_game_pred(n["r"], game, games)
        if a is None or b is None:
            return None
        return (a and b) if n["op"] == "&&" else (a or b)
    def side(x):
        while x.get("k") in ("AddrOf", "Paren") and "e" in x:
            x = x["e"]
        if x.get("k") == "Path" and x.get("p") in games:
            return games.index(x["p"])
        if x.get("k") == "Field" and x.get("n") == "game":
            return games.index(game)
        return None
    if k == "Binary" and n.get("op") in ("<=", "<", ">=", ">", "==", "!="):
        a, b = side(n["l"]), side(n["r"])
        if a is None or b is None:
            # opcode == literal and the like
            l, r = n["l"], n["r"]
            if any(x.get("k") == "Path" and x.get("p") == "opcode" for x in (l, r)):
                return True
            return None
        return {"<=": a <= b, "<": a < b, ">=": a >= b, ">": a > b, "==": a == b, "!=": a != b}[n["op"]]
    if k == "Match":
        # matches!(self.game, A | B | ..) expands to match { A | B => true, _ => false }
        sc = side(n["s"])
        if sc is None:
            return None
        for arm in n["arms"]:
            pats = arm["p"]["ps"] if arm["p"].get("k") == "Or" else [arm["p"]]
            hit = False
            for p in pats:
                if p.get("k") in ("Wild", "Bind"):
                    hit = True
                elif p.get("k") in ("Path", "TS", "Struct") and p.get("p") == game:
                    hit = True
            if hit:
                b = arm["b"]
                if b.get("k") == "Lit" and b.get("v") in ("true", "false"):
                    return b["v"] == "true"
                return _eval_game_pred(b, game, games)
        return None
    if k == "Block" and not n.get("ss") and "e" in n:
        return _eval_game_pred(n["e"], game, games)
    if k == "Path" and n.get("rk") == "Local":
        inits = _LETS.get(n.get("p")) or []
        if len(inits) == 1:
            return _eval_game_pred(inits[0], game, games)
        return None
    return None


def _table_presence(db, table_ids, opcode, games):
    """games for which the version-ranged built-in tables contain `opcode` (an entry applies from its game onward, a later
    `None` entry removes it)"""
    events = []
    for tid in table_ids:
        d = db.statics.get(tid)
        if d is None:
            continue
        for x in hir_walk(d["hir"]):
            if x.get("k") == "Tup" and len(x.get("es", [])) == 3 and x["es"][0].get("k") == "Path" and x["es"][0].get("p") in games \
                    and x["es"][1].get("k") == "Lit" and re.match(r"^%d(_?[iu]\d+)?$" % opcode, x["es"][1]["v"]):
                third = x["es"][2]
                present = not (third.get("k") == "Path" and (third.get("p") or "").endswith("Option::None"))
                events.append((games.index(x["es"][0]["p"]), present))
    out = set()
    for gi, g in enumerate(games):
        st = None
        for at, present in sorted(events):
            if at <= gi:
                st = present
        if st:
            out.add(g)
    return out, len(events)


def _anm_game_sets(db, rep):
    games = _game_order(db)
    hook = db.fn("<formats::anm::AnmHooks07 as llir::LanguageHooks>::instr_disables_scratch_regs")
    rep.fn(hook)
    body = hook.hir
    # opcodes named by the hook
    ops = sorted(set(int(re.match(r"^(\d+)", x["v"]).group(1)) for n in hir_walk(body) if n.get("k") == "Binary" and n.get("op") == "=="
                     for x in (n["l"], n["r"]) if x.get("k") == "Lit" and re.match(r"^\d+", x.get("v", ""))))
    rep.check(len(games) >= 20 and bool(ops), "R-ANTISCRATCH", "AnmHooks07|opcodes", hook.loc, "anti-scratch opcodes %s" % ops, "no opcode literal found in the ANM anti-scratch hook")
    cond = None
    for n in hir_walk(body):
        if n.get("k") == "MCall" and (n.get("f") or "").endswith("<impl bool>::then"):
            cond = n["r"]
        elif n.get("k") == "If" and cond is None:
            cond = n["c"]
    from rules import hirq
    _LETS.clear()
    _LETS.update(hirq.lets(hook))
    tables = [k for k in db.statics if k.startswith("core_mapfiles::anm::ANM_INS_")]
    for op in ops:
        present, n_ev = _table_presence(db, tables, op, games)
        if cond is None:
            rep.bad("R-ANTISCRATCH", "AnmHooks07|%d|games" % op, hook.loc, "the hook's condition was not found")
            continue
        answered = set()
        unknown = False
        for g in games:
            v = _eval_game_pred(cond, g, games)
            if v is None:
                unknown = True
            elif v:
                answered.add(g)
        if unknown:
            raise Broken("the game predicate of AnmHooks07::instr_disables_scratch_regs is not understood")
        short = lambda s_: sorted(x.rsplit("::", 1)[-1] for x in s_)
        rep.check(n_ev > 0 and answered == present, "R-ANTISCRATCH", "AnmHooks07|%d|games" % op, hook.loc,
                  "ins_%d forbids scratch registers in exactly the games that have it (%s)" % (op, ", ".join(short(present))),
                  "ins_%d exists in the built-in ANM tables of %s but the hook forbids scratch use only for %s: in %s a script using it silently gets scratch registers" % (
                      op, short(present), short(answered), short(present - answered)))


def _pats(p):
    return p["ps"] if p.get("k") == "Or" else [p]


def _var_entries(db, table_id, games):
    """(game index, reg, sigil or None) for every register entry of a built-in signature table"""
    d = db.statics.get(table_id)
    out = []
    if d is None:
        return out
    for x in hir_walk(d["hir"]):
        if x.get("k") == "Tup" and len(x.get("es", [])) == 3 and x["es"][0].get("k") == "Path" and x["es"][0].get("p") in games:
            idn, third = x["es"][1], x["es"][2]
            neg = False
            if idn.get("k") == "Unary" and idn.get("op") == "-":
                neg, idn = True, idn["e"]
            if idn.get("k") != "Lit" or not re.match(r"^\d+", idn.get("v", "")):
                continue
            reg = int(re.match(r"^(\d+)", idn["v"]).group(1)) * (-1 if neg else 1)
            if third.get("k") == "Call" and (third.get("f") or "").endswith("Option::Some") and third["a"] and third["a"][0].get("k") == "Lit" \
                    and third["a"][0]["v"] in ('"$"', '"%"'):
                out.append((games.index(x["es"][0]["p"]), reg, third["a"][0]["v"].strip('"')))
            elif third.get("k") == "Path" and (third.get("p") or "").endswith("Option::None") and abs(reg) >= 10000:
                out.append((games.index(x["es"][0]["p"]), reg, None))
    return out


def _pool_regs(arm_body):
    """{ScalarType variant -> [reg]} from an `enum_map!{ ScalarType::X => vec![RegId(n), ..], .. }` expression"""
    out = {}
    for m in hir_walk(arm_body):
        if m.get("k") == "Match" and any(q.get("p", "").startswith("value::ScalarType::") for a in m["arms"] for q in _pats(a["p"])):
            for a in m["arms"]:
                regs = []
                for x in hir_walk(a["b"]):
                    if x.get("k") == "Call" and x.get("f") == "resolve::RegId" and x.get("a"):
                        v = x["a"][0]
                        neg = False
                        if v.get("k") == "Unary" and v.get("op") == "-":
                            neg, v = True, v["e"]
                        if v.get("k") == "Lit" and re.match(r"^\d+", v.get("v", "")):
                            regs.append(int(re.match(r"^(\d+)", v["v"]).group(1)) * (-1 if neg else 1))
                        else:
                            raise Broken("a general-purpose register is not written as a literal")
                for q in _pats(a["p"]):
                    if q.get("p", "").startswith("value::ScalarType::"):
                        out.setdefault(q["p"].rsplit("::", 1)[-1], []).extend(regs)
            break
    return out


def _pool_declared(db, rep):
    games = _game_order(db)
    SIG = {"Int": "$", "Float": "%"}
    # ---- ECL (EoSD..StB): pool per game vs the table core_signatures(game) selects
    sel = db.fn("core_mapfiles::ecl::core_signatures")
    table_of = {}
    for n in hir_walk(sel.hir):
        if n.get("k") == "Match":
            for a in n["arms"]:
                if a["b"].get("k") == "Path" and (a["b"].get("p") or "").startswith("core_mapfiles::ecl::"):
                    for q in _pats(a["p"]):
                        table_of[q.get("p")] = a["b"]["p"]
            break
    f = db.fn("<formats::ecl::ecl_06::OldeEclHooks as llir::LanguageHooks>::general_use_regs")
    rep.fn(f); rep.fn(sel)
    n_regs = 0
    outer = next((n for n in hir_walk(f.hir) if n.get("k") == "Match" and n["s"].get("k") == "Field" and n["s"].get("n") == "game"), None)
    if outer is None:
        raise Broken("OldeEclHooks::general_use_regs no longer dispatches on self.game")
    for a in outer["arms"]:
        gs = [q.get("p") for q in _pats(a["p"]) if q.get("p") in games]
        if not gs:
            continue
        pool = _pool_regs(a["b"])
        for g in gs:
            tid = table_of.get(g)
            ents = _var_entries(db, tid, games) if tid else []
            gi = games.index(g)
            for ty, regs in sorted(pool.items()):
                for r in regs:
                    n_regs += 1
                    cur = None
                    for at, reg, sg in sorted(ents, key=lambda e: e[0]):
                        if reg == r and at <= gi:
                            cur = (sg,)
                    key = "ecl|%s|%s|%d" % (g.rsplit("::", 1)[-1], ty, r)
                    loc = "%s:%d" % (f.file, a["ln"])
                    if cur is None or cur[0] is None:
                        rep.bad("R-POOL-DECLARED", key, loc, "register %d is in the %s scratch pool of %s but the built-in register table of that game (%s) has no such register: a local bound to it is stored in a variable the game does not have" % (
                            r, ty, g.rsplit("::", 1)[-1], tid))
                    elif cur[0] != SIG.get(ty):
                        rep.bad("R-POOL-DECLARED", key, loc, "register %d is in the %s scratch pool of %s but the built-in register table declares it as '%s'" % (r, ty, g.rsplit("::", 1)[-1], cur[0]))
                    else:
                        rep.ok("R-POOL-DECLARED", key, loc, "register %d (%s) is declared '%s' by %s" % (r, ty, cur[0], tid))
    # ---- ANM: pool per version vs ANM_VAR (declared for some game, and never with another type)
    fa = db.fn("<formats::anm::AnmHooks07 as llir::LanguageHooks>::general_use_regs")
    rep.fn(fa)
    ents = _var_entries(db, "core_mapfiles::anm::ANM_VAR", games)
    for m in hir_walk(fa.hir):
        if m.get("k") == "Match" and m["s"].get("k") == "Field" and m["s"].get("n") == "version":
            for a in m["arms"]:
                if a["b"].get("never"):
                    continue
                vs = "/".join(q.get("p", "?").rsplit("::", 1)[-1] for q in _pats(a["p"]))
                for ty, regs in sorted(_pool_regs(a["b"]).items()):
                    for r in regs:
                        n_regs += 1
                        sigs = set(sg for _, reg, sg in ents if reg == r and sg)
                        key = "anm|%s|%s|%d" % (vs, ty, r)
                        loc = "%s:%d" % (fa.file, a["ln"])
                        rep.check(sigs == {SIG.get(ty)}, "R-POOL-DECLARED", key, loc, "register %d (%s) is declared '%s' by ANM_VAR" % (r, ty, SIG.get(ty)),
                                  "register %d is in the %s scratch pool of ANM %s but ANM_VAR declares it as %s" % (r, ty, vs, sorted(sigs) or "nothing"))
            break
    rep.floor("R-POOL-DECLARED general-purpose registers compared with the built-in register tables", n_regs, 80)
