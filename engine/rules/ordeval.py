"""Order-abstract evaluation of one function's HIR decision structure.

Some functions touch their integer inputs only through comparisons (with each other and with literals) and
through +/- on the same inputs.  Their behaviour is then determined by the *ordering* of the inputs, a finite
set: enumerating one representative per ordering (all assignments over a small domain that contains every
compared literal and its neighbours) is exhaustive for the decision logic.  This module interprets the HIR
tree (not the program) over such representatives: `if` conditions are evaluated when they only involve
known integers, and both branches are explored when they involve anything else; calls of a designated
"emit" callee are recorded as events.  Nothing of truth is executed.
"""
import itertools
import re
from facts import hir_walk


class Unknown:
    def __repr__(self):
        return "?"


U = Unknown()
MASK = (1 << 32) - 1


def wrap(v):
    v &= MASK
    return v - (1 << 32) if v & (1 << 31) else v


class Diverge(Exception):
    pass


class Evaluator:
    def __init__(self, fn, event_fn, is_panic=None, max_paths=4096):
        self.fn = fn
        self.event_fn = event_fn      # (call node, evaluator, env) -> event or None
        self.max_paths = max_paths

    # ---- expressions -> int | bool | U
    def ev(self, n, env):
        if not isinstance(n, dict):
            return U
        k = n.get("k")
        if k == "Lit":
            v = n.get("v")
            if v in ("true", "false"):
                return v == "true"
            m = re.match(r"^(0x[0-9a-fA-F]+|\d+)", str(v))
            return int(m.group(1), 0) if m else U
        if k == "Path":
            if n.get("rk") == "Local":
                return env.get(n["p"], U)
            return U
        if k == "Field":
            key = self.place_key(n)
            if key is not None:
                return env.get(key, U)
            return U
        if k in ("DropTemps", "Paren", "Cast", "Type", "AddrOf", "Deref") and "e" in n:
            return self.ev(n["e"], env)
        if k == "Unary":
            v = self.ev(n["e"], env)
            if n.get("op") == "!" and isinstance(v, bool):
                return not v
            if n.get("op") == "-" and isinstance(v, int) and not isinstance(v, bool):
                return wrap(-v)
            if n.get("op") == "*":
                return v
            return U
        if k == "Binary":
            op = n.get("op")
            a = self.ev(n["l"], env)
            if op == "&&":
                if a is False:
                    return False
                b = self.ev(n["r"], env)
                if a is True:
                    return b if isinstance(b, bool) else U
                return False if b is False else U
            if op == "||":
                if a is True:
                    return True
                b = self.ev(n["r"], env)
                if a is False:
                    return b if isinstance(b, bool) else U
                return True if b is True else U
            b = self.ev(n["r"], env)
            if isinstance(a, Unknown) or isinstance(b, Unknown):
                return U
            if op in ("<", "<=", ">", ">=", "==", "!="):
                return {"<": a < b, "<=": a <= b, ">": a > b, ">=": a >= b, "==": a == b, "!=": a != b}[op]
            if isinstance(a, bool) or isinstance(b, bool):
                return U
            if op == "+":
                return wrap(a + b)
            if op == "-":
                return wrap(a - b)
            if op == "*":
                return wrap(a * b)
            return U
        if k == "MCall":
            f = n.get("f") or ""
            if f.endswith("::wrapping_sub") or f.endswith("::wrapping_add"):
                a = self.ev(n["r"], env)
                b = self.ev(n["a"][0], env) if n.get("a") else U
                if isinstance(a, int) and isinstance(b, int) and not isinstance(a, bool) and not isinstance(b, bool):
                    return wrap(a - b) if f.endswith("sub") else wrap(a + b)
                return U
            if f.endswith("convert::Into::into") or f.endswith("convert::From::from") or f.endswith("clone::Clone::clone"):
                return self.ev(n["r"], env)
            return U
        if k == "Call":
            f = n.get("f") or ""
            if (f.endswith("convert::Into::into") or f.endswith("convert::From::from")) and n.get("a"):
                return self.ev(n["a"][0], env)
            return U
        if k == "Block" and not n.get("ss") and "e" in n:
            return self.ev(n["e"], env)
        return U

    def place_key(self, n):
        """`self.f` / `x.f` as an environment key"""
        parts = []
        while isinstance(n, dict) and n.get("k") == "Field":
            parts.append(n["n"])
            n = n["e"]
        while isinstance(n, dict) and n.get("k") in ("Deref", "AddrOf", "Unary") and "e" in n:
            n = n["e"]
        if isinstance(n, dict) and n.get("k") == "Path" and n.get("rk") == "Local":
            return ".".join([n["p"]] + list(reversed(parts)))
        return None

    # ---- statements: generator of (env, events) continuations
    def run_block(self, blk, state):
        """state = (env, events); yields resulting states (forks on undecidable conditions)"""
        states = [state]
        for st in blk.get("ss") or []:
            nxt = []
            for s in states:
                if st.get("k") == "Let":
                    env, evs = s
                    p = st.get("p") or {}
                    if "i" in st:
                        for (env2, evs2, val) in self.run_expr(st["i"], (env, evs)):
                            if p.get("k") == "Bind":
                                env2 = dict(env2)
                                env2[p["n"]] = val
                            nxt.append((env2, evs2))
                    else:
                        nxt.append(s)
                else:
                    for (env2, evs2, _) in self.run_expr(st.get("e"), s):
                        nxt.append((env2, evs2))
            states = nxt
            if len(states) > self.max_paths:
                raise RuntimeError("too many paths")
        out = []
        if "e" in blk:
            for s in states:
                out.extend(self.run_expr(blk["e"], s))
        else:
            out = [(e, v, U) for e, v in states]
        return out

    def run_expr(self, n, state):
        """-> list of (env, events, value)"""
        env, evs = state
        if not isinstance(n, dict):
            return [(env, evs, U)]
        k = n.get("k")
        x = n.get("x", "")
        if n.get("never") and ("panic" in x or "unreachable" in x):
            return []          # diverges: no continuation
        if k == "Block" or (k is None and "ss" in n):
            if "panic" in x or "unreachable" in x:
                return []
            return self.run_block(n, state)
        if k in ("DropTemps", "Paren") and "e" in n:
            return self.run_expr(n["e"], state)
        if k == "If":
            c = n["c"]
            cv = self.ev(c, env) if c.get("k") != "LetE" else U
            outs = []
            if cv is True or isinstance(cv, Unknown):
                outs.extend(self.run_expr(n["t"], state))
            if cv is False or isinstance(cv, Unknown):
                if "el" in n:
                    outs.extend(self.run_expr(n["el"], state))
                else:
                    outs.append((env, evs, U))
            return outs
        if k == "Assign":
            outs = []
            for (env2, evs2, val) in self.run_expr(n["r"], state):
                l = n["l"]
                key = l["p"] if l.get("k") == "Path" and l.get("rk") == "Local" else self.place_key(l)
                if key is None and l.get("k") == "Unary" and l.get("op") == "*":
                    inner = l["e"]
                    key = inner["p"] if inner.get("k") == "Path" else None
                    if key is None:
                        key = "*" + str(self.describe(inner))
                if key is not None:
                    env2 = dict(env2)
                    env2[key] = val
                outs.append((env2, evs2, U))
            return outs
        if k in ("Call", "MCall"):
            ev = self.event_fn(n, self, env)
            if ev is not None:
                return [(env, evs + [ev], U)]
            if n.get("never"):
                return []
            return [(env, evs, self.ev(n, env))]
        if k == "Match":
            # explore every arm (patterns are not interpreted)
            outs = []
            for arm in n["arms"]:
                outs.extend(self.run_expr(arm["b"], state))
            return outs
        if k == "Ret":
            return [(dict(env, **{"<returned>": True}), evs, U)]
        return [(env, evs, self.ev(n, env))]

    def describe(self, n):
        return " ".join(sorted(str(x.get("f") or x.get("p") or x.get("n")) for x in hir_walk(n) if x.get("f") or x.get("n"))[:4])


def literals_in_comparisons(fn):
    out = set()
    for n in hir_walk(fn.hir):
        if n.get("k") == "Binary" and n.get("op") in ("<", "<=", ">", ">=", "==", "!="):
            for side in ("l", "r"):
                s = n[side]
                neg = False
                if s.get("k") == "Unary" and s.get("op") == "-":
                    s = s["e"]
                    neg = True
                if s.get("k") == "Lit":
                    try:
                        v = int(str(s["v"]).split("_")[0], 0)
                        out.add(-v if neg else v)
                    except ValueError:
                        pass
    return out


def domain(fn):
    d = {-2, -1, 0, 1, 2}
    for v in literals_in_comparisons(fn):
        d |= {v - 1, v, v + 1}
    return sorted(d)


def assignments(names, dom):
    for vals in itertools.product(dom, repeat=len(names)):
        yield dict(zip(names, vals))
