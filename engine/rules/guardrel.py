"""Guard relations: for an accept site, the canonical relations (side <rel> side) that must hold for control to reach it.

A guard found by flow.guards_before (a comparison whose branch dominates the accept site and one of whose edges cannot
reach it) is turned into the relation that holds on the edge that reaches the accept site.  Relations are compared with
a frozen, reviewed table: every frozen relation must be IMPLIED by a current one with the same sides, i.e. guards may be
added or made stricter, not removed, weakened or inverted (a stricter guard only makes the tool refuse more)."""
import re
from rules import flow
from facts import place_local

REL = {"Eq": "==", "Ne": "!=", "Lt": "<", "Le": "<=", "Gt": ">", "Ge": ">="}
NEG = {"==": "!=", "!=": "==", "<": ">=", "<=": ">", ">": "<=", ">=": "<"}
FLIP = {"<": ">", "<=": ">=", ">": "<", ">=": "<=", "==": "==", "!=": "!="}
IMPLIES = {("<", "<="), ("<", "!="), (">", ">="), (">", "!="), ("==", "<="), ("==", ">=")}


GENERIC_CALL = re.compile(r"^(Try::branch|Option::\w+|Result::\w+|BTreeMap::get|HashMap::get|Iterator::next|Deref::deref|Clone::clone|Into::into|From::from|Index::index|slice::iter|Vec::\w+|convert::\w+)$")


def side_desc(srcs):
    """the distinctive origins of one side of a comparison: named fields, non-generic callees, constants"""
    out = set()
    for s in srcs:
        if s[0] == "const":
            k = re.sub(r"_[iu](8|16|32|64|size)$", "", str(s[1]))
            k = re.sub(r"^.*::promoted\[\d+\]$", "const", k)
            out.add("k:" + k)
        elif s[0] == "field":
            if not str(s[2]).isdigit():
                out.add("f:" + str(s[2]))
        elif s[0] == "call":
            c = re.sub(r"::<[^>]*>", "", s[1] or "")
            c2 = "::".join(c.split("::")[-2:])
            if not GENERIC_CALL.match(c2):
                out.add("c:" + c2)
        elif s[0] == "discr":
            out.add("discr")
    return "+".join(sorted(out))


def accept_sites(f, kind, pat):
    out = []
    for bi, b in enumerate(f.blocks):
        if b.get("cleanup"):
            continue
        if kind == "agg":
            for s in b["s"]:
                if s["r"] == "agg" and re.search(pat, s.get("adt") or ""):
                    out.append((s.get("ln", 0), bi))
        elif kind == "call":
            t = b["t"]
            if t["k"] == "call" and re.search(pat, t.get("f") or ""):
                out.append((t["ln"], bi))
    return [bi for _, bi in sorted(set(out))]


def relations(f, acc, defs=None):
    defs = defs or flow.Defs(f)
    hdr = flow.innermost_header(f, acc)
    out = set()
    for c in flow.guards_before(f, acc, defs, hdr):
        when = flow.accepted_when(f, c, acc, hdr)
        if not when or len(when) != 1:
            continue
        rel = REL.get(c["op"])
        if rel is None:
            continue
        if when == {False}:
            rel = NEG[rel]
        a, b = side_desc(c["a"]), side_desc(c["b"])
        if not a and not b:
            continue
        a, b = a or "*", b or "*"
        if b < a:
            a, b, rel = b, a, FLIP[rel]
        out.add((a, rel, b))
    return out


def _subset(a, b):
    if a == "*":
        return True
    return set(a.split("+")) <= set(b.split("+"))


def implied(cur, frozen):
    """is the frozen relation implied by some current relation whose sides have (at least) the frozen sides' origins?"""
    a, rel, b = frozen
    for ca, crel, cb in cur:
        for (x, y, r) in ((ca, cb, crel), (cb, ca, FLIP[crel])):
            if _subset(a, x) and _subset(b, y) and (r == rel or (r, rel) in IMPLIES):
                return True
    return False


SITES = {
    "should_decompile_loop|Yes": ("passes::decompile_loop::should_decompile_loop", "agg", r"Yes$"),
    "_gather_cond_chain|accept": ("passes::decompile_loop::_gather_cond_chain", "agg", r"CondChainInfo$"),
    "MakeBreakVisitor::visit_jump|break": ("<passes::decompile_loop::MakeBreakVisitor as ast::mut_::VisitMut>::visit_jump", "agg", r"StmtJumpKind::BreakContinue$"),
    "recognize_diff_switch|fold": ("llir::raise::recognize::recognize_diff_switch", "call", r"Vec::<T, A>::push$"),
    "recognize_double_instr_intrinsic|fold": ("llir::raise::recognize::recognize_double_instr_intrinsic", "agg", r"RaiseInstr$"),
    "recognize_reg_call|fold": ("llir::raise::recognize::recognize_reg_call", "agg", r"RaiseInstr$"),
}


def current_table(db, keys=None):
    out = {}
    for key, (fid, kind, pat) in SITES.items():
        if keys is not None and key not in keys:
            continue
        f = db.fn(fid)
        d = flow.Defs(f)
        for i, acc in enumerate(accept_sites(f, kind, pat)):
            out["%s-%d" % (key, i + 1)] = sorted(relations(f, acc, d))
    return out


def check(db, rep, keys, rule="R-GUARD-REL"):
    import json, os
    from common import VERIF
    frozen = json.load(open(os.path.join(VERIF, "engine", "tables", "guard_relations.json")))["entries"]
    cur = current_table(db, keys)
    n = 0
    for key in keys:
        fid = SITES[key][0]
        f = db.fn(fid)
        rep.fn(f)
        fz = dict((k, v) for k, v in frozen.items() if k.rsplit("-", 1)[0] == key)
        cz = dict((k, v) for k, v in cur.items() if k.rsplit("-", 1)[0] == key)
        # accept sites are matched as a set: a frozen site is satisfied if SOME current site implies all its relations
        for fk, rels in sorted(fz.items()):
            for rel in rels:
                n += 1
                rel = tuple(rel)
                ok = any(implied(set(tuple(x) for x in crels), rel) for crels in cz.values())
                rep.check(ok, rule, "%s|%s %s %s" % (fk, rel[0], rel[1], rel[2]), f.loc,
                          "still required (possibly in a stricter form) on the way to this accept site",
                          "the condition `%s %s %s` that used to be required before %s is gone, weaker or inverted (conditions now required: %s)" % (
                              rel[0], rel[1], rel[2], fk, [list(x) for crels in cz.values() for x in crels][:8]))
    return n
