"""Small HIR query helpers: let-resolution, feature sets of expressions, ordered call sequences.

A *feature set* of an expression is the set of ('call', callee) / ('local', name) / ('lit', value) /
('ctor', path) / ('field', name) items that occur in it, where a local that is bound by a `let` in the same
function is replaced (recursively) by the features of its initialiser.  Rules are phrased over features
("the keyword argument is derived from `negate` applied to the parameter `keyword`") so that they do not
depend on variable names chosen for intermediate values or on statement layout.
"""
from facts import hir_walk


def let_stmts(node):
    """all `let` statements under node (hir_walk yields expressions only)"""
    for n in hir_walk(node):
        if "ss" in n:
            for st in n.get("ss") or []:
                if st.get("k") == "Let":
                    yield st


def lets(fn):
    """name -> list of initialiser nodes of `let name = init` bindings in this function"""
    out = {}
    for n in let_stmts(fn.hir):
        if isinstance(n.get("p"), dict) and "i" in n:
            for nm in _bound_names(n["p"]):
                out.setdefault(nm, []).append(n["i"])
    # `if let PAT = init` / `while let`: names bound by PAT derive from init
    for n in hir_walk(fn.hir):
        if n.get("k") == "LetE" and isinstance(n.get("p"), dict) and "i" in n:
            for nm in _bound_names(n["p"]):
                out.setdefault(nm, []).append(n["i"])
    return out


def _bound_names(p):
    if not isinstance(p, dict):
        return
    if p.get("k") == "Bind":
        yield p["n"]
        if "sub" in p:
            yield from _bound_names(p["sub"])
    for key in ("p", "ps", "fs", "sub"):
        v = p.get(key)
        if isinstance(v, dict):
            yield from _bound_names(v)
        elif isinstance(v, list):
            for q in v:
                if isinstance(q, dict):
                    yield from _bound_names(q)
                elif isinstance(q, (list, tuple)):
                    for r in q:
                        if isinstance(r, dict):
                            yield from _bound_names(r)


def features(fn, node, _lets=None, _seen=None, resolve=True):
    L = _lets if _lets is not None else lets(fn)
    seen = _seen if _seen is not None else set()
    out = set()
    negated = set()
    for n in hir_walk(node):
        k = n.get("k")
        if id(n) in negated:
            continue
        if k in ("Call", "MCall") and n.get("f"):
            if n.get("rk", "").startswith("Ctor"):
                out.add(("ctor", n["f"]))
            else:
                out.add(("call", n["f"]))
        elif k == "Path":
            if n.get("rk") == "Local":
                nm = n["p"]
                out.add(("local", nm))
                if resolve and nm in L and nm not in seen:
                    seen.add(nm)
                    for init in L[nm]:
                        out |= features(fn, init, L, seen, resolve)
            elif n.get("rk", "").startswith("Ctor") or n.get("rk") in ("Const", "AssocConst"):
                out.add(("ctor", n["p"]))
        elif k == "Struct":
            out.add(("ctor", n["p"]))
        elif k == "Lit":
            out.add(("lit", n["v"]))
        elif k == "Unary" and n.get("op") == "-" and isinstance(n.get("e"), dict) and n["e"].get("k") == "Lit":
            out.add(("lit", "-" + n["e"]["v"]))
            negated.add(id(n["e"]))
        elif k == "Field":
            out.add(("field", n["n"]))
    return out


def has_call(feats, suffix):
    return any(t == "call" and v.endswith(suffix) for t, v in feats)


def has_local(feats, name):
    return ("local", name) in feats


def has_ctor(feats, suffix):
    return any(t == "ctor" and v.endswith(suffix) for t, v in feats)


def call_seq(node, suffixes=None):
    """calls in source (pre-)order; optionally only those whose callee ends with one of `suffixes`"""
    out = []
    for n in hir_walk(node):
        if n.get("k") in ("Call", "MCall") and n.get("f"):
            if suffixes is None or any(n["f"].endswith(s) for s in suffixes):
                out.append(n)
    return out


def args_of(call):
    """positional arguments of a call (method receiver excluded)"""
    return call.get("a", [])


def find_if_on_local(fn, name):
    for n in hir_walk(fn.hir):
        if n.get("k") == "If" and isinstance(n.get("c"), dict):
            c = n["c"]
            while c.get("k") in ("DropTemps", "Paren") and "e" in c:
                c = c["e"]
            if c.get("k") == "Path" and c.get("p") == name:
                return n
    return None


def pushes(fn, node, L=None):
    """ordered list of (receiver field name, features of the pushed value) for Vec::push calls under node"""
    L = L if L is not None else lets(fn)
    out = []
    for c in call_seq(node, ("Vec::<T, A>::push",)):
        r = c.get("r") or {}
        while r.get("k") in ("AddrOf", "Deref") and "e" in r:
            r = r["e"]
        name = r.get("n") if r.get("k") == "Field" else (r.get("p") if r.get("k") == "Path" else None)
        out.append((name, features(fn, c["a"][0], L) if c.get("a") else set()))
    return out


def let_before(L, name, ln):
    """the initialiser of the closest `let name` at or before source line ln (handles re-used names in sibling arms)"""
    best = None
    for init in L.get(name, []):
        l = init.get("ln", 0)
        if l <= ln and (best is None or l >= best.get("ln", 0)):
            best = init
    return best
