"""R-HASH: iteration over randomly seeded hash tables must not reach output.

Enumerates every call that starts an iteration over a std HashMap/HashSet (this covers the
alias resolve::IdMap), follows the iterator through adapter chains / for-loops /
returns (inter-procedurally: a function returning a hash-ordered iterator makes each of
its call sites an iteration source) and classifies the consumer.
"""
import re
from facts import callee, op_local, op_place, place_local, place_proj

HASH_TY = re.compile(r"std::collections::hash::(map|set)::")

# methods of HashMap / HashSet (and their entry types) that never expose iteration order
ORDER_FREE_METHODS = {
    "new", "with_capacity", "default", "get", "get_mut", "get_key_value", "insert", "remove", "remove_entry",
    "contains_key", "contains", "len", "is_empty", "entry", "or_insert", "or_insert_with", "or_default",
    "or_insert_with_key", "and_modify", "key", "clear", "reserve", "shrink_to_fit", "capacity", "take", "replace",
    "get_or_insert_with", "is_subset", "is_superset", "is_disjoint", "with_hasher", "hasher", "try_insert",
    "insert_entry", "into_mut", "remove_kv", "try_reserve", "with_capacity_and_hasher", "from", "eq", "ne",
}
# methods that start an iteration in table order
ITER_METHODS = {
    "iter", "iter_mut", "keys", "values", "values_mut", "drain", "into_keys", "into_values", "retain",
    "extract_if", "difference", "union", "intersection", "symmetric_difference", "into_iter",
}
ADAPTERS = {
    "map", "filter", "filter_map", "flat_map", "flatten", "cloned", "copied", "enumerate", "chain", "zip",
    "peekable", "skip", "take", "inspect", "by_ref", "rev", "step_by", "fuse", "scan", "take_while",
    "skip_while", "map_while", "into_iter", "iter",
}
TERMINAL_INSENSITIVE = {"any", "all", "count", "sum", "product", "max", "min", "len", "size_hint"}
ORDERED_SINK_TY = re.compile(r"^(std::collections::hash::(map::HashMap|set::HashSet)|alloc::collections::btree::(map::BTreeMap|set::BTreeSet))<")
SORTS = {"sort", "sort_by", "sort_by_key", "sort_unstable", "sort_unstable_by", "sort_unstable_by_key", "sort_by_cached_key"}

# calls allowed in the body of a loop over a hash table without making the loop order-sensitive
LOOP_PURE = re.compile(
    r"^(core::cmp::|core::clone::Clone::clone|core::ops::deref::|core::option::Option::<T>::(is_some|is_none|as_ref|as_mut|unwrap_or|map|copied|cloned)"
    r"|core::convert::|core::iter::traits::iterator::Iterator::next$|core::iter::traits::collect::IntoIterator::into_iter$"
    r"|std::collections::hash::(map|set)::|alloc::collections::btree::(map|set)::[A-Za-z]+::<[^>]*>::(insert|get|contains_key|contains|entry|remove)"
    r"|core::ops::index::Index::index|core::mem::|core::ptr::|core::intrinsics::)")


def last_seg(path):
    p = re.sub(r"::<[^>]*>$", "", path)
    return p.rsplit("::", 1)[-1]


def peel(t):
    t = t.strip()
    while t.startswith("&"):
        t = t[1:].strip()
        if t.startswith("mut "):
            t = t[4:]
        t = re.sub(r"^'[a-z_0-9]+ ", "", t)
    return t


def is_hash_collection_ty(t):
    t = peel(t)
    return t.startswith("std::collections::hash::map::HashMap<") or t.startswith("std::collections::hash::set::HashSet<")


class Site:
    def __init__(self, fn, bb, term, kind):
        self.fn = fn
        self.bb = bb
        self.term = term
        self.kind = kind          # 'source' | 'returned-iter'
        self.verdict = None       # 'insensitive' | 'sensitive'
        self.reason = ""
        self.ordinal = 0

    @property
    def key(self):
        return "%s|%s|%d" % (self.fn.id, last_seg(self.term.get("f", "")), self.ordinal)

    @property
    def loc(self):
        return "%s:%d" % (self.fn.file, self.term["ln"])


def _uses(fn):
    """map local -> list of ('stmt'|'term', bb, index, obj) where local is read (bare or as base of a place)"""
    u = {}

    def add(p, rec):
        if p is None:
            return
        u.setdefault(place_local(p), []).append(rec)
    for bi, b in enumerate(fn.blocks):
        for si, s in enumerate(b["s"]):
            rec = ("stmt", bi, si, s)
            for k in ("o", "a", "b"):
                if k in s and isinstance(s[k], dict):
                    add(op_place(s[k]), rec)
            for o in s.get("ops", []):
                add(op_place(o), rec)
            if "p" in s:
                add(s["p"], rec)
        t = b["t"]
        rec = ("term", bi, -1, t)
        for o in t.get("a", []):
            add(op_place(o), rec)
        if t["k"] == "switch":
            add(op_place(t["d"]), rec)
    return u


def natural_loop(fn, header_bb):
    """blocks that can reach header_bb again without leaving (body of the loop containing header)"""
    succ = fn.succ()
    fwd = fn.reachable_from(header_bb)
    body = set()
    pred = fn.pred()
    # backward reachability from header within fwd
    st = [p for p in pred[header_bb] if p in fwd]
    body.add(header_bb)
    while st:
        x = st.pop()
        if x in body:
            continue
        body.add(x)
        for p in pred[x]:
            if p in fwd and p not in body:
                st.append(p)
    return body


def classify(db, fn, start_local, start_bb, returned_iter_fns, depth=0):
    """follow the iterator held in start_local; returns (verdict, reason)"""
    uses = _uses(fn)
    work = [start_local]
    seen = set()
    verdicts = []
    while work:
        l = work.pop()
        if l in seen:
            continue
        seen.add(l)
        if l == 0:
            verdicts.append(("returned", "iterator is returned to the caller"))
            continue
        for kind, bi, si, obj in uses.get(l, []):
            if kind == "stmt":
                r = obj["r"]
                if r in ("use", "ref", "cast"):
                    d = obj["d"]
                    if place_proj(d):
                        verdicts.append(("sensitive", "iterator stored into a place %s" % d))
                    else:
                        work.append(place_local(d))
                elif r == "agg":
                    if obj.get("ak") == "closure":
                        verdicts.append(("sensitive", "iterator captured by closure %s" % obj.get("adt")))
                    else:
                        work.append(place_local(obj["d"]))
                elif r == "discr":
                    pass
                else:
                    verdicts.append(("sensitive", "iterator used by rvalue %s" % r))
                continue
            t = obj
            if t["k"] != "call":
                continue
            c = t.get("f", "")
            name = last_seg(c)
            dest = place_local(t["d"])
            dest_ty = fn.local_ty(dest)
            if c.startswith("core::iter::traits::iterator::Iterator::") or c.startswith("core::iter::traits::collect::IntoIterator::") \
                    or c.startswith("core::iter::traits::double_ended::") or HASH_TY.search(c):
                if name == "next" or name == "next_back":
                    body = natural_loop(fn, bi)
                    if body == {bi} and bi not in fn.succ()[bi]:
                        # not a loop: a single next() takes whichever element the table order puts first
                        verdicts.append(("sensitive", "a single %s() outside any loop (line %d) picks the first element in table order" % (name, t["ln"])))
                    else:
                        v = classify_loop(db, fn, body, bi, uses)
                        verdicts.append(v)
                elif name in ADAPTERS or (HASH_TY.search(c) and name in ITER_METHODS):
                    work.append(dest)
                elif name in TERMINAL_INSENSITIVE:
                    verdicts.append(("insensitive", "consumed by order-insensitive %s()" % name))
                elif name in ("collect", "from_iter", "extend", "unzip"):
                    target = (t.get("ga") or ["", ""])[-1]
                    if name == "extend":
                        target = peel(t["ga"][0]) if t.get("ga") else ""
                    if ORDERED_SINK_TY.match(peel(target)) or ORDERED_SINK_TY.match(peel(dest_ty)):
                        verdicts.append(("insensitive", "collected into %s" % peel(target)[:60]))
                    else:
                        if sorted_afterwards(fn, dest, bi, uses):
                            verdicts.append(("insensitive", "collected then sorted"))
                        else:
                            verdicts.append(("sensitive", "collected into order-preserving %s" % (peel(target)[:80] or dest_ty[:80])))
                elif name in ORDER_FREE_METHODS:
                    pass
                else:
                    verdicts.append(("sensitive", "consumed by order-dependent %s()" % name))
            elif c == "error::GatherErrorIteratorExt::collect_with_recovery":
                verdicts.append(("sensitive", "collect_with_recovery emits/collects errors in iteration order"))
            elif c.startswith("core::ops::drop") or c == "core::mem::drop":
                pass
            else:
                verdicts.append(("sensitive", "iterator passed to %s" % c))
    if not verdicts:
        return ("insensitive", "iterator is never consumed")
    bad = [v for v in verdicts if v[0] == "sensitive"]
    if bad:
        return bad[0]
    ret = [v for v in verdicts if v[0] == "returned"]
    if ret:
        return ret[0]
    return verdicts[0]


def sorted_afterwards(fn, vec_local, from_bb, uses):
    """is there a sort*() on &mut vec_local in a block dominated by from_bb"""
    dom = fn.dominators()
    # aliases: refs of vec_local
    refs = {vec_local}
    for kind, bi, si, obj in uses.get(vec_local, []):
        if kind == "stmt" and obj["r"] in ("ref", "use"):
            refs.add(place_local(obj["d"]))
    # one more level (deref_mut to slice)
    more = set()
    for l in list(refs):
        for kind, bi, si, obj in uses.get(l, []):
            if kind == "term" and obj["k"] == "call" and last_seg(obj.get("f", "")) in ("deref_mut", "as_mut_slice", "deref"):
                more.add(place_local(obj["d"]))
            if kind == "stmt" and obj["r"] in ("ref", "use"):
                more.add(place_local(obj["d"]))
    refs |= more
    for l in list(refs):
        for kind, bi, si, obj in uses.get(l, []):
            if kind == "stmt" and obj["r"] in ("ref", "use"):
                refs.add(place_local(obj["d"]))
    for l in refs:
        for kind, bi, si, obj in uses.get(l, []):
            if kind == "term" and obj["k"] == "call" and last_seg(obj.get("f", "")) in SORTS:
                if from_bb in dom.get(bi, ()):
                    return True
    return False


def classify_loop(db, fn, body, header, uses):
    """a `for` loop over a hash table: order-insensitive only if the body has no order-dependent effect"""
    pushes = []
    for bi in sorted(body):
        b = fn.blocks[bi]
        t = b["t"]
        if b.get("cleanup"):
            continue
        if t["k"] == "call":
            c = t.get("f", "")
            if LOOP_PURE.match(c):
                continue
            if c.startswith("alloc::vec::Vec::<T, A>::push"):
                pushes.append((bi, t))
                continue
            return ("sensitive", "loop body calls %s (line %d) once per element in table order" % (c, t["ln"]))
        if t["k"] == "ret":
            return ("sensitive", "loop body returns early (line %d): which element is seen first depends on table order" % t["ln"])
    # pushes: accepted only if every pushed vector is sorted after the loop
    for bi, t in pushes:
        recv = op_place(t["a"][0])
        base = None
        # find the local the &mut Vec refers to
        l = place_local(recv)
        for bj in range(len(fn.blocks)):
            for s in fn.blocks[bj]["s"]:
                if place_local(s["d"]) == l and not place_proj(s["d"]) and s["r"] == "ref":
                    base = place_local(s["p"])
        if base is None or not sorted_afterwards(fn, base, header, uses):
            return ("sensitive", "loop body pushes onto a Vec (line %d) that is not sorted afterwards" % t["ln"])
    if pushes:
        return ("insensitive", "loop only pushes onto vectors that are sorted right after the loop")
    return ("insensitive", "loop body has no order-dependent effect")


def find_sites(db, rep):
    """all iteration sources over hash collections in non-generated code"""
    sites = []
    returned_iter_fns = {}
    # pass 1: direct sources
    for f in db.fns.values():
        if f.gen:
            continue
        n = {}
        for bb, t in f.calls():
            c = t.get("f", "")
            ga = t.get("ga", [])
            name = last_seg(c)
            src = False
            if (c.startswith("std::collections::hash::map::HashMap::") or c.startswith("std::collections::hash::set::HashSet::")):
                rep.site()
                if name in ITER_METHODS:
                    src = True
                elif name not in ORDER_FREE_METHODS:
                    s = Site(f, bb, t, "source")
                    s.verdict, s.reason = "sensitive", "unknown HashMap/HashSet method %s: not in the order-free list" % name
                    n[name] = n.get(name, 0) + 1
                    s.ordinal = n[name]
                    sites.append(s)
                    continue
            elif c in ("core::iter::traits::collect::IntoIterator::into_iter",) and ga and is_hash_collection_ty(ga[0]):
                rep.site()
                src = True
            elif c == "core::iter::traits::collect::Extend::extend" and len(ga) > 0 and any(is_hash_collection_ty(g) for g in ga[1:]):
                rep.site()
                src = True
            if src:
                s = Site(f, bb, t, "source")
                n[name] = n.get(name, 0) + 1
                s.ordinal = n[name]
                sites.append(s)
    # classify, iterating to a fixpoint over functions that return hash-ordered iterators
    done = set()
    changed = True
    rounds = 0
    while changed and rounds < 6:
        changed = False
        rounds += 1
        for s in list(sites):
            if id(s) in done:
                continue
            done.add(id(s))
            f, t = s.fn, s.term
            if s.verdict is not None:
                continue
            name = last_seg(t.get("f", ""))
            if name == "retain" or name == "extract_if":
                s.verdict, s.reason = "sensitive", "%s() calls its closure in table order" % name
                continue
            if name == "extend" and t.get("f", "").endswith("Extend::extend"):
                tgt = peel(t["ga"][0])
                if ORDERED_SINK_TY.match(tgt):
                    s.verdict, s.reason = "insensitive", "extends a %s" % tgt[:50]
                else:
                    s.verdict, s.reason = "sensitive", "extends order-preserving %s from a hash table" % tgt[:60]
                continue
            dest = place_local(t["d"])
            v, why = classify(db, f, dest, s.bb, returned_iter_fns)
            if v == "returned":
                # every call of this function (or of its parent, for closures) is a new source
                s.verdict, s.reason = "insensitive", "iterator returned; consumers are checked at the call sites of " + f.id
                target = f.id
                if target not in returned_iter_fns:
                    returned_iter_fns[target] = True
                    for g in db.fns.values():
                        if g.gen:
                            continue
                        k = 0
                        for bb, t2 in g.calls():
                            if t2.get("f") == target or t2.get("fr") == target:
                                k += 1
                                ns = Site(g, bb, t2, "returned-iter")
                                ns.ordinal = k
                                sites.append(ns)
                                changed = True
            else:
                s.verdict, s.reason = v, why
    return sites


def dyn_debug_sites(db):
    """coercions of a hash collection to a trait object (e.g. &dyn Debug in derived Debug impls,
    format_args!("{:?}")) — the table order becomes visible if the text is ever printed"""
    out = []
    for f in db.fns.values():
        if f.gen:
            continue
        for bi, b in enumerate(f.blocks):
            for s in b["s"]:
                if s["r"] == "cast" and s["ck"].startswith("PointerCoercion"):
                    frm = db.types[s["from"]]
                    to = db.types[s["to"]]
                    if is_hash_collection_ty(frm) and "dyn " in to:
                        out.append((f, s["ln"], frm, to))
        for bb, t in f.calls():
            c = t.get("f", "")
            if c.startswith("core::fmt::rt::Argument::<'_>::new_") and t.get("ga") and is_hash_collection_ty(t["ga"][0]):
                out.append((f, t["ln"], t["ga"][0], c))
    return out
