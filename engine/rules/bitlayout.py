"""Symbolic bit-slice tracking through shift / mask / cast / add expressions of the HIR.

A value is a list of slices (origin, origin_lo, width, dest_lo): `width` bits of `origin` starting at bit
origin_lo sit at bit dest_lo of the value.  Supported: field reads (origins), `>> k`, `<< k`, `* 2^k`,
`& (2^w - 1)`, `as uN`, `+` / `|` of values with disjoint destinations, let-bound locals.
Anything else yields None (unknown) and the rule using it must say so.
"""
from rules import hirq

TYPE_BITS = {"u8": 8, "u16": 16, "u32": 32, "i32": 32, "u64": 64, "usize": 64}


def lit_int(n):
    if isinstance(n, dict) and n.get("k") == "Lit":
        try:
            return int(str(n["v"]).split("_")[0], 0)
        except ValueError:
            return None
    return None


class Sym:
    def __init__(self, fn, db, origins):
        """origins: callable(node) -> (name, bits) for nodes that are origins (e.g. `color.0`, `components.red`)"""
        self.fn = fn
        self.db = db
        self.origins = origins
        self.lets = hirq.lets(fn)
        self.notes = []      # e.g. change_bit_depth applications: (in, out, slices)
        self.overlaps = []

    def ev(self, n, depth=0):
        if not isinstance(n, dict) or depth > 40:
            return None
        o = self.origins(n)
        if o is not None:
            name, bits = o
            return [(name, 0, bits, 0)]
        k = n.get("k")
        if k in ("Paren", "DropTemps", "Block") and "e" in n and not n.get("ss"):
            return self.ev(n["e"], depth + 1)
        if k == "Path" and n.get("rk") == "Local":
            inits = self.lets.get(n["p"], [])
            if len(inits) == 1:
                return self.ev(inits[0], depth + 1)
            return None
        if k == "Cast":
            v = self.ev(n["e"], depth + 1)
            bits = TYPE_BITS.get(self.db.types[n["ty"]])
            if v is None or bits is None:
                return None
            return self._mask(v, bits)
        if k == "Binary":
            op = n.get("op")
            if op in (">>", "<<"):
                v = self.ev(n["l"], depth + 1)
                kk = lit_int(n["r"])
                if v is None or kk is None:
                    return None
                return self._shift(v, -kk if op == ">>" else kk)
            if op == "*":
                v = self.ev(n["l"], depth + 1)
                kk = lit_int(n["r"])
                if v is None or kk is None or kk <= 0 or kk & (kk - 1):
                    return None
                return self._shift(v, kk.bit_length() - 1)
            if op == "&":
                v = self.ev(n["l"], depth + 1)
                m = lit_int(n["r"])
                if v is None or m is None or m <= 0 or (m & (m + 1)):
                    return None
                return self._mask(v, m.bit_length())
            if op in ("+", "|"):
                a = self.ev(n["l"], depth + 1)
                b = self.ev(n["r"], depth + 1)
                if a is None or b is None:
                    return None
                out = a + b
                used = set()
                for (_, _, w, d) in out:
                    for bit in range(d, d + w):
                        if bit in used:
                            self.overlaps.append(bit)     # two fields land on the same bit
                        used.add(bit)
                return out
            return None
        if k == "Call" and (n.get("f") or "").endswith("change_bit_depth") and len(n.get("ga") or []) == 2 and n.get("a"):
            v = self.ev(n["a"][0], depth + 1)
            try:
                i_, o_ = int(n["ga"][0]), int(n["ga"][1])
            except ValueError:
                return None
            if v is None:
                return None
            self.notes.append((i_, o_, v))
            if o_ >= i_:
                # upsizing: the input occupies the top i_ bits of the result
                return self._shift(self._mask(v, i_), o_ - i_)
            return self._shift(v, -(i_ - o_))
        return None

    @staticmethod
    def _shift(v, k):
        out = []
        for (o, olo, w, d) in v:
            d2 = d + k
            if d2 < 0:
                cut = -d2
                if cut >= w:
                    continue
                out.append((o, olo + cut, w - cut, 0))
            else:
                out.append((o, olo, w, d2))
        return out

    @staticmethod
    def _mask(v, bits):
        out = []
        for (o, olo, w, d) in v:
            if d >= bits:
                continue
            out.append((o, olo, min(w, bits - d), d))
        return out
