"""R-VISIT: traversal completeness of hand-written visitors against the canonical walker.

The oracle is the repository's own `ast::walk_*` (generated once for Visit, once for VisitMut):
its `match` says, per enum variant, which fields carry AST children (the bindings it passes to
`visit_*`).  A hand-written override that matches on the same enum must, for every variant with
children, (a) delegate to `walk_*` on the node, or (b) bind every child field and use the binding
in the arm body, or (c) reject the variant (unconditional error), or (d) diverge (typed `!`,
judged by the R-DIVERGE rule of C04, not here).
"""
from facts import hir_walk, hir_children, pat_top_variants, is_empty_block

NON_AST_VISITS = {"visit_loop_begin", "visit_loop_end", "visit_node_id", "visit_res_ident", "visit_root_block"}


def find_matches(fn, db, enum_path):
    """HIR `match` nodes in fn whose scrutinee type is (a reference to) enum_path"""
    out = []
    for n in hir_walk(fn.hir):
        if n.get("k") == "Match" and n.get("src") == "Normal" and "st" in n:
            t = db.types[n["st"]].replace("&mut ", "").replace("&", "").strip()
            if t == enum_path or t.startswith(enum_path + "<"):
                out.append(n)
    return out


def _strip(p):
    while p["k"] in ("Ref", "Box", "Deref"):
        p = p["p"]
    if p["k"] == "Bind" and "sub" in p:
        return _strip(p["sub"])
    return p


def variant_alternatives(p):
    """flatten or-patterns: list of (variant path or '_', pattern node)"""
    p = _strip(p)
    if p["k"] == "Or":
        out = []
        for q in p["ps"]:
            out.extend(variant_alternatives(q))
        return out
    if p["k"] in ("Struct", "TS", "Path"):
        return [(p["p"], p)]
    if p["k"] in ("Wild", "Bind"):
        return [("_", p)]
    if p["k"] == "Guard":
        return variant_alternatives(p["p"])
    return [("?" + p["k"], p)]


def field_bindings(pat, db, variant_path):
    """{field name -> binding names (list) | None if ignored} for a Struct / TS pattern"""
    res = {}
    if pat["k"] == "Struct":
        for name, q in pat["fs"]:
            res[name] = bound_names(q)
        res["__rest__"] = pat.get("rest", False)
    elif pat["k"] == "TS":
        dd = pat.get("dd")
        for i, q in enumerate(pat["ps"]):
            res[str(i)] = bound_names(q)
        res["__rest__"] = dd is not None
    return res


def bound_names(p):
    out = []
    k = p["k"]
    if k == "Bind":
        out.append(p["n"])
        if "sub" in p:
            out.extend(bound_names(p["sub"]))
    elif k in ("Ref", "Box", "Deref", "Guard"):
        out.extend(bound_names(p["p"]))
    elif k == "Struct":
        for _, q in p["fs"]:
            out.extend(bound_names(q))
    elif k in ("TS", "Tuple", "Or"):
        for q in p["ps"]:
            out.extend(bound_names(q))
    elif k == "Slice":
        for q in p["a"] + p["b"]:
            out.extend(bound_names(q))
        if p.get("m"):
            out.extend(bound_names(p["m"]))
    return out


def names_used(node):
    """local names mentioned under node"""
    s = set()
    for n in hir_walk(node):
        if n.get("k") == "Path" and n.get("rk") == "Local":
            s.add(n["p"])
    return s


def walker_children(db, walker_id, enum_path):
    """variant path -> sorted list of child field names (fields the canonical walker visits)"""
    f = db.fn(walker_id)
    ms = find_matches(f, db, enum_path)
    if not ms:
        raise Exception("walker %s has no match on %s" % (walker_id, enum_path))
    children = {}
    for m in ms:
        for arm in m["arms"]:
            for vpath, pat in variant_alternatives(arm["p"]):
                if vpath.startswith("_") or vpath.startswith("?"):
                    continue
                fb = field_bindings(pat, db, vpath)
                # attribute: binding name -> set of visit methods whose call mentions it
                attr = {}
                for n in hir_walk(arm["b"]):
                    if n.get("k") in ("MCall", "Call"):
                        m_name = n.get("m") or (n.get("f") or "").rsplit("::", 1)[-1]
                        for a in ([n["r"]] if "r" in n else []) + n.get("a", []):
                            for nm in names_used(a):
                                attr.setdefault(nm, set()).add(m_name)
                kids = set(children.get(vpath, []))
                for fld, names in fb.items():
                    if fld == "__rest__" or not names:
                        continue
                    calls = set()
                    for nm in names:
                        calls |= attr.get(nm, set())
                    if calls and not calls <= NON_AST_VISITS:
                        kids.add(fld)
                children[vpath] = sorted(kids)
    return children


def arm_rejects(body):
    """the arm unconditionally reports an error (ErrorFlag::set / returns Err(emit)) at its top level"""
    def top_level(n):
        if n.get("k") == "Block":
            for s in n.get("ss", []):
                e = s.get("e") or s.get("i")
                if e:
                    yield from top_level(e)
            if "e" in n:
                yield from top_level(n["e"])
        elif n.get("k") in ("If", "Match", "Loop", "Closure"):
            return
        else:
            yield n
            for c in hir_children(n):
                yield from top_level(c)
    for n in top_level(body):
        if n.get("k") in ("MCall", "Call"):
            f = n.get("f", "")
            if f in ("error::ErrorFlag::set",) or f.endswith("Emitter::emit"):
                return True
        if n.get("k") == "Ret":
            return True
    return False


def _visited_names(body, pat):
    """names that flow into a call matching `pat` (directly as an argument / receiver, or as the iterable of a `for` loop /
    iterator chain whose body contains such a call)"""
    import re as _re
    rx = _re.compile(pat)
    out = set()
    for n in hir_walk(body):
        if n.get("k") in ("Call", "MCall") and rx.search(n.get("f") or ""):
            out |= names_used(n)
        elif n.get("k") == "Match" and n.get("src") == "ForLoopDesugar":
            if any(x.get("k") in ("Call", "MCall") and rx.search(x.get("f") or "") for x in hir_walk(n)):
                out |= names_used(n["s"])
        elif n.get("k") == "MCall" and n.get("m") in ("for_each", "map", "try_for_each", "any", "all"):
            if any(x.get("k") in ("Call", "MCall") and rx.search(x.get("f") or "") for a in n.get("a", []) for x in hir_walk(a)):
                out |= names_used(n["r"])
    return out


def check_visitor(db, rep, rule, visitor_id, enum_path, children, walk_fns, require_explicit=(), visit_call_pat=None):
    """check one override.  walk_fns: resolved paths that count as delegation on the node"""
    f = db.fn(visitor_id)
    rep.fn(f)
    ms = find_matches(f, db, enum_path)
    n_inst = 0
    if not ms:
        # the override does not dispatch on the enum at all: it must delegate somewhere in its body
        calls = [n.get("f") for n in hir_walk(f.hir) if n.get("k") in ("Call", "MCall")]
        ok = any(c in walk_fns for c in calls)
        rep.check(ok, rule, "%s|no-match|delegates" % visitor_id, f.loc,
                  "override has no match on %s; delegates to the canonical walker" % enum_path,
                  "override neither matches on %s nor delegates to %s" % (enum_path, "/".join(walk_fns)))
        return 1
    seen_variants = set()
    for mi, m in enumerate(ms):
        for arm in m["arms"]:
            body = arm["b"]
            used = names_used(body) | (names_used(arm["g"]) if "g" in arm else set())
            if visit_call_pat:
                used = _visited_names(body, visit_call_pat)
            delegates = any(n.get("k") in ("Call", "MCall") and n.get("f") in walk_fns for n in hir_walk(body))
            never = bool(body.get("never"))
            rejects = arm_rejects(body)
            for vpath, pat in variant_alternatives(arm["p"]):
                rep.site()
                if vpath.startswith("?"):
                    continue
                if vpath == "_":
                    # wildcard arm: stands for every variant not listed before
                    rest = [v for v in children if v not in seen_variants]
                    for v in rest:
                        kids = children[v]
                        if not kids:
                            continue
                        n_inst += 1
                        key = "%s|%s|wildcard" % (visitor_id, v)
                        loc = "%s:%d" % (f.file, arm["ln"])
                        if delegates or never or rejects:
                            rep.ok(rule, key, loc, "wildcard arm %s for %s" % ("delegates to the walker" if delegates else "rejects/diverges", v))
                        elif v in require_explicit or True:
                            rep.bad(rule, key, loc, "variant %s has children %s but falls into a wildcard arm that neither delegates to the walker nor rejects it" % (v, kids))
                    seen_variants |= set(rest)
                    continue
                seen_variants.add(vpath)
                kids = children.get(vpath)
                if kids is None:
                    continue   # not a variant of this enum (nested pattern on something else)
                if not kids:
                    continue
                n_inst += 1
                key = "%s|%s" % (visitor_id, vpath)
                loc = "%s:%d" % (f.file, arm["ln"])
                if delegates:
                    rep.ok(rule, key, loc, "arm delegates to the canonical walker (children %s)" % kids)
                    continue
                if never:
                    rep.ok(rule, key, loc, "arm diverges (judged by R-DIVERGE, C04)")
                    continue
                if rejects:
                    rep.ok(rule, key, loc, "arm rejects the variant with an error")
                    continue
                fb = field_bindings(pat, db, vpath)
                missing = []
                for kid in kids:
                    names = fb.get(kid)
                    if not names or not any(nm in used for nm in names):
                        missing.append(kid)
                if missing:
                    what = "empty arm" if is_empty_block(body) else "arm"
                    rep.bad(rule, key, loc, "%s for %s does not visit child field(s) %s (the canonical walker visits %s)" % (what, vpath, missing, kids))
                else:
                    rep.ok(rule, key, loc, "arm uses every child field %s" % kids)
    return n_inst


EXPR_VISITOR_EXCEPTIONS = {
    "<passes::unused_labels::get_label_refcounts::Visitor as ast::ref_::Visit>::visit_expr":
        "counts label references: matches LabelProperty and falls back to walk_expr for every other variant (wildcard arm delegates)",
    "<passes::desugar_blocks::<impl ast::Stmt>::get_loop_id::GetStmtLoopIdVisitor as ast::ref_::Visit>::visit_expr":
        "deliberate stub: the probe must not look into children (C06 R-BREAK-GOTO)",
    "<passes::type_check::Visitor<'_, '_> as ast::ref_::Visit>::visit_expr":
        "hands the whole expression to ExprTypeChecker::check_expr, whose own traversal is decided by C09 R-EXPR-TABLES / R-MUSTCALL",
}


def check_all_expr_visitors(db, rep, rule, only_prefix=None):
    """every hand-written `visit_expr` override (Visit / VisitMut) either delegates to walk_expr or visits all children of the
    variants it matches; audited exceptions are listed above with their reason"""
    ch = walker_children(db, "ast::ref_::walk_expr", "ast::Expr")
    n = 0
    for f in sorted(db.fns.values(), key=lambda f: (f.file, f.line)):
        if f.gen or not (f.id.endswith("ast::ref_::Visit>::visit_expr") or f.id.endswith("ast::mut_::VisitMut>::visit_expr")):
            continue
        if only_prefix and not any(p in f.id for p in only_prefix):
            continue
        if f.id in EXPR_VISITOR_EXCEPTIONS:
            rep.ok(rule, "%s|audited" % f.id, f.loc, "audited: " + EXPR_VISITOR_EXCEPTIONS[f.id])
            continue
        n += 1
        walks = {"ast::ref_::walk_expr", "ast::mut_::walk_expr"}
        body = f.hir
        top = [st.get("e") for st in (body.get("ss") or []) if st.get("k") in ("Semi", "Expr")] + ([body["e"]] if isinstance(body.get("e"), dict) else [])
        if any(isinstance(e, dict) and e.get("k") == "Call" and e.get("f") in walks for e in top):
            rep.fn(f)
            rep.ok(rule, "%s|walks unconditionally" % f.id, f.loc, "the override calls walk_expr on every path (as a top-level statement of its body)")
            continue
        check_visitor(db, rep, rule, f.id, "ast::Expr", ch, walks, visit_call_pat=r"::(visit_|walk_)")
    return n
