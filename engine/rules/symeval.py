"""Symbolic evaluation of HIR bodies: what does a syntax-directed translator *emit*, on every path?

Nothing of truth is executed.  The HIR tree of a function (as dumped by the driver) is interpreted over
symbolic terms; local callees from a configurable set are inlined (closures included, so callbacks such
as `inner(self)` are followed), pushes onto designated sinks become *events*, undecidable conditions fork
the path and are recorded as path conditions over *atoms* (so `!(a && b)` and `!a || !b` give the same
path set).  `for` loops are summarised by one symbolic iteration.  The result is a set of
(conditions, events) paths; `canonical()` removes conditions that do not influence the events and numbers
fresh symbols by first occurrence, so that two implementations emitting the same thing under the same
circumstances give the same set, however their code is arranged.

Terms (tuples):
  ("sym", name)                   input
  ("fresh", tag, n)               n-th result of a designated fresh-name call on this path
  ("ctor", path, ((field, term), ...))     struct / variant construction (fields sorted by name)
  ("some", t) ("none",)           Option
  ("tuple", (t, ...))
  ("lit", text)
  ("app", fname, (t, ...))        opaque pure application
  ("proj", term, what)            projection out of an opaque term (pattern binding / field access)
  ("closure", node, env)
"""
import re
from collections import namedtuple

State = namedtuple("State", "env conds events fresh flow ret")
# flow: None (normal) | "break" | "continue" | "return" | "diverge"

TRANSPARENT_SUFFIX = (
    "IntoSpanned::into_spanned", "convert::Into::into", "convert::From::from", "clone::Clone::clone",
    "Option::<T>::cloned", "Option::<T>::as_ref", "Option::<T>::as_mut", "Option::<T>::copied",
    "boxed::Box::<T>::new", "borrow::ToOwned::to_owned", "Option::<T>::as_deref", "convert::AsRef::as_ref",
    "borrow::Borrow::borrow", "ops::deref::Deref::deref", "ops::deref::DerefMut::deref_mut",
)
TRANSPARENT_LAST = {"cloned", "copied", "as_ref", "as_mut", "clone", "into", "from", "to_owned", "borrow", "as_deref"}
SP_PATHS = ("pos::span::Sp",)


def short(f):
    """callee name without generic noise"""
    f = f.replace("::<'_, '_>", "").replace("::<'_>", "").replace("::<T, A>", "").replace("::<T>", "")
    return f


def render(t):
    if not isinstance(t, tuple):
        return repr(t)
    k = t[0]
    if k == "sym":
        return t[1]
    if k == "fresh":
        return "%s#%d" % (t[1], t[2])
    if k == "lit":
        return str(t[1])
    if k == "none":
        return "None"
    if k == "some":
        return "Some(%s)" % render(t[1])
    if k == "tuple":
        return "(" + ", ".join(render(x) for x in t[1]) + ")"
    if k == "ctor":
        name = t[1].split("::")[-2] + "::" + t[1].split("::")[-1] if "::" in t[1] else t[1]
        if not t[2]:
            return name
        return name + "{" + ", ".join("%s: %s" % (f, render(v)) for f, v in t[2]) + "}"
    if k == "app":
        return short(t[1]).split("::")[-1] + "(" + ", ".join(render(x) for x in t[2]) + ")"
    if k == "proj":
        return "%s.%s" % (render(t[1]), t[2])
    if k == "bin":
        return "(%s %s %s)" % (render(t[2]), t[1], render(t[3]))
    if k == "un":
        return "%s%s" % (t[1], render(t[2]))
    if k == "closure":
        return render(t[4]) if len(t) > 4 and t[4] is not None else "<closure>"
    if k == "elem":
        return "each(%s)" % render(t[1])
    if k == "upd":
        return "%s{%s := %s}" % (render(t[1]), t[2], render(t[3]))
    return repr(t)


def _assigned_locals(node):
    """names of locals assigned (`x = ..`, `x op= ..`, `x.f = ..`) anywhere under node"""
    from facts import hir_walk
    out = set()
    for n in hir_walk(node):
        if n.get("k") in ("Assign", "AssignOp"):
            l = n["l"]
            while isinstance(l, dict) and l.get("k") in ("Field", "Paren", "Index") and "e" in l:
                l = l["e"]
            if isinstance(l, dict) and l.get("k") == "Path" and l.get("rk") == "Local":
                out.add(l["p"])
    return out


def _lit_eq(a, b):
    def norm(x):
        return re.sub(r"_?[iu](8|16|32|64|size)$", "", str(x))
    return norm(a) == norm(b)


def _atom_term(v):
    while v[0] == "un" and v[1] == "!":
        v = v[2]
    if v[0] == "bin" and v[1] == "!=":
        return ("bin", "==", v[2], v[3])
    return v


def _upd_base(t):
    while isinstance(t, tuple) and t and t[0] == "upd":
        t = t[1]
    return t


def _rooted_in_sym(t):
    while isinstance(t, tuple) and t and t[0] == "proj":
        t = t[1]
    return isinstance(t, tuple) and t and t[0] == "sym"


class Config:
    def __init__(self, db, entry, inline_prefixes=(), sinks=(), fresh_calls=(), recurse_to=(), max_depth=8,
                 drop_fields=("span", "node_id", "offset_comment"), effect_calls=(), inline_exact=(), error_paths=False):
        self.db = db
        self.entry = entry
        self.inline_prefixes = tuple(inline_prefixes)
        self.sinks = tuple(sinks)              # rendered receiver of Vec::push that is an emission sink, e.g. "self.out"
        self.fresh_calls = tuple(fresh_calls)  # callee suffixes producing fresh names
        self.recurse_to = tuple(recurse_to)    # callee ids recorded as ("recurse", ...) events instead of being inlined
        self.max_depth = max_depth
        self.drop_fields = set(drop_fields)
        self.effect_calls = tuple(effect_calls)  # callee suffixes recorded as ("effect", name, args) events
        self.inline_exact = tuple(inline_exact)  # callee ids (short or full) that are inlined
        self.effect_re = None                    # compiled regex: callees (short path) recorded as effects
        self.atom_terms = {}                     # condition key -> term of the (un-negated, `==`-normalised) atom
        self.no_inline = ()                      # substrings of callee ids that are never inlined (stateful helpers)
        self.error_paths = error_paths           # also follow the error exits of `?`


class Evaluator:
    def __init__(self, cfg):
        self.cfg = cfg
        self.db = cfg.db
        self.max_paths = 20000

    # ------------------------------------------------------------------ entry
    def run_fn(self, fn, args=None):
        env = {}
        for i, p in enumerate(fn.d.get("hparams") or []):
            val = args[i] if args is not None and i < len(args) else None
            if val is None:
                val = ("sym", p.get("n", "arg%d" % i)) if p.get("k") == "Bind" else ("sym", "arg%d" % i)
            self.bind(p, val, env)
        st = State(env, (), (), 0, None, None)
        return self.ev(fn.hir, st, 0)

    # ------------------------------------------------------------------ patterns
    def bind(self, p, val, env):
        """irrefutable-style binding (used when the match result is already decided/assumed)"""
        k = p.get("k")
        if k == "Bind":
            env[p["n"]] = val
            if "sub" in p:
                self.bind(p["sub"], val, env)
        elif k in ("Ref", "Box", "Deref"):
            self.bind(p["p"], val, env)
        elif k == "Tuple":
            for i, q in enumerate(p["ps"]):
                self.bind(q, self.project(val, str(i)), env)
        elif k == "TS":
            inner = val
            if val[0] == "some" and p["p"].endswith("Option::Some"):
                if p["ps"]:
                    self.bind(p["ps"][0], val[1], env)
                return
            for i, q in enumerate(p["ps"]):
                self.bind(q, self.project(inner, "%s.%d" % (p["p"].split("::")[-1], i)), env)
        elif k == "Struct":
            for name, q in p["fs"]:
                self.bind(q, self.project(val, name, ctor=p["p"]), env)
        elif k == "Or":
            # all alternatives bind the same names
            self.bind(p["ps"][0], val, env)
        elif k == "Guard":
            self.bind(p["p"], val, env)

    def project(self, val, what, ctor=None):
        if val[0] == "ctor":
            for f, v in val[2]:
                if f == what or (what.split(".")[-1] == f):
                    return v
        if val[0] == "tuple" and what.isdigit() and int(what) < len(val[1]):
            return val[1][int(what)]
        if what == "value":           # Sp<T> is transparent
            return val
        return ("proj", val, what)

    def try_match(self, p, val):
        """-> 'yes' | 'no' | 'maybe'"""
        k = p.get("k")
        if k in ("Bind",):
            return self.try_match(p["sub"], val) if "sub" in p else "yes"
        if k in ("Wild", "Missing"):
            return "yes"
        if k in ("Ref", "Box", "Deref"):
            return self.try_match(p["p"], val)
        if k == "Guard":
            r = self.try_match(p["p"], val)
            return "no" if r == "no" else "maybe"
        if k == "Or":
            rs = [self.try_match(q, val) for q in p["ps"]]
            if "yes" in rs:
                return "yes"
            return "maybe" if "maybe" in rs else "no"
        if k == "Tuple":
            if val[0] == "tuple":
                rs = [self.try_match(q, v) for q, v in zip(p["ps"], val[1])]
                if "no" in rs:
                    return "no"
                return "maybe" if "maybe" in rs else "yes"
            rs = [self.try_match(q, self.project(val, str(i))) for i, q in enumerate(p["ps"])]
            if all(r == "yes" for r in rs):
                return "yes"
            return "maybe"
        if k in ("TS", "Struct", "Path"):
            path = p.get("p", "")
            if path.endswith("Option::None"):
                return "yes" if val[0] == "none" else ("no" if val[0] == "some" else "maybe")
            if path.endswith("Option::Some"):
                if val[0] == "some":
                    return self.try_match(p["ps"][0], val[1]) if p.get("ps") else "yes"
                return "no" if val[0] == "none" else "maybe"
            if val[0] == "ctor":
                if val[1] != path:
                    # struct (non-enum) patterns always match their own type
                    return "no"
                subs = []
                if k == "TS":
                    for i, q in enumerate(p["ps"]):
                        subs.append(self.try_match(q, self.project(val, "%s.%d" % (path.split("::")[-1], i))))
                elif k == "Struct":
                    for name, q in p["fs"]:
                        subs.append(self.try_match(q, self.project(val, name)))
                if "no" in subs:
                    return "no"
                return "maybe" if "maybe" in subs else "yes"
            if path in SP_PATHS:
                # Sp { span, value } pattern on a transparent Sp
                subs = [self.try_match(q, val) for name, q in p.get("fs", []) if name == "value"]
                if "no" in subs:
                    return "no"
                return "maybe" if "maybe" in subs else "yes"
            if val[0] == "lit":
                return "no"
            return "maybe"
        if k == "Lit":
            if val[0] == "lit":
                pv = ("-" if p.get("neg") else "") + p["v"]
                return "yes" if pv == val[1] else "no"
            return "maybe"
        if k == "Range":
            return "maybe"
        return "maybe"

    def pat_render(self, p):
        k = p.get("k")
        if k == "Bind":
            return self.pat_render(p["sub"]) if "sub" in p else "_"
        if k in ("Wild", "Missing"):
            return "_"
        if k in ("Ref", "Box", "Deref"):
            return self.pat_render(p["p"])
        if k == "Guard":
            return self.pat_render(p["p"]) + " if .."
        if k == "Or":
            return "|".join(self.pat_render(q) for q in p["ps"])
        if k == "Tuple":
            return "(" + ",".join(self.pat_render(q) for q in p["ps"]) + ")"
        if k == "Path":
            return p["p"].split("::")[-1]
        if k == "TS":
            inner = ",".join(self.pat_render(q) for q in p["ps"])
            return p["p"].split("::")[-1] + ("(" + inner + ")" if any(c not in "_," for c in inner) else "")
        if k == "Struct":
            if p["p"] in SP_PATHS:
                for name, q in p["fs"]:
                    if name == "value":
                        return self.pat_render(q)
                return "_"
            inner = ",".join("%s:%s" % (n, self.pat_render(q)) for n, q in p["fs"] if self.pat_render(q) != "_")
            return p["p"].split("::")[-1] + ("{" + inner + "}" if inner else "")
        if k == "Lit":
            return ("-" if p.get("neg") else "") + p["v"]
        if k == "Range":
            return "range"
        return k or "?"

    # ------------------------------------------------------------------ helpers
    def fork_guard(self, sts):
        if len(sts) > self.max_paths:
            raise RuntimeError("symeval: too many paths")
        return sts

    def with_cond(self, st, key, val, dom=(True, False)):
        for k, v, _ in st.conds:
            if k == key:
                return st if v == val else None      # contradictory -> infeasible
        return st._replace(conds=st.conds + ((key, val, tuple(dom)),))

    def emit(self, st, ev):
        return st._replace(events=st.events + (ev,))

    def place_render(self, n, st):
        """syntactic place `a.b.c` (through refs) or None"""
        parts = []
        while isinstance(n, dict):
            k = n.get("k")
            if k == "Field":
                parts.append(n["n"])
                n = n["e"]
            elif k in ("AddrOf", "Paren", "Use") or (k == "Unary" and n.get("op") == "*"):
                n = n["e"]
            elif k == "Path" and n.get("rk") == "Local":
                base = st.env.get(n["p"])
                b = render(base) if base is not None and base[0] == "sym" else n["p"]
                return ".".join([b] + list(reversed(parts)))
            else:
                return None
        return None

    # ------------------------------------------------------------------ boolean conditions
    def cond(self, n, st, depth):
        """evaluate a condition -> list of (state, bool); forks on unknown atoms"""
        k = n.get("k")
        if k == "Unary" and n.get("op") == "!":
            return [(s, not b) for s, b in self.cond(n["e"], st, depth)]
        if k == "Binary" and n.get("op") in ("&&", "||"):
            out = []
            for s, a in self.cond(n["l"], st, depth):
                if s.flow:
                    out.append((s, a))
                elif (n["op"] == "&&" and not a) or (n["op"] == "||" and a):
                    out.append((s, a))
                else:
                    out.extend(self.cond(n["r"], s, depth))
            return out
        if k == "LetE":
            out = []
            for s, v in self.ev(n["i"], st, depth):
                if s.flow:
                    out.append((s, False))
                    continue
                out.extend(self.match_pattern(n["p"], v, s))
            return out
        if k in ("Paren", "Use") and "e" in n:
            return self.cond(n["e"], st, depth)
        out = []
        for s, v in self.ev(n, st, depth):
            if s.flow:
                out.append((s, False))
                continue
            b = self.truth(v)
            if b is not None:
                out.append((s, b))
                continue
            key, pol = self.atom(v)
            self.cfg.atom_terms[key] = _atom_term(v)
            for val in (True, False):
                s2 = self.with_cond(s, key, val)
                if s2 is not None:
                    out.append((s2, val == pol))
        return out

    def simple_pattern(self, p):
        """patterns made of Option constructors, literals, wildcards / bindings, `|` and tuples only"""
        k = p.get("k")
        if k in ("Wild", "Missing", "Lit"):
            return True
        if k == "Bind":
            return self.simple_pattern(p["sub"]) if "sub" in p else True
        if k in ("Ref", "Box", "Deref"):
            return self.simple_pattern(p["p"])
        if k in ("Or", "Tuple"):
            return all(self.simple_pattern(q) for q in p["ps"])
        if k in ("TS", "Path", "Struct"):
            path = p.get("p", "")
            if path.endswith("Option::None"):
                return True
            if path.endswith("Option::Some"):
                return all(self.simple_pattern(q) for q in p.get("ps", []))
        return False

    def _mentions_option(self, p):
        if not isinstance(p, dict):
            return False
        if p.get("p", "") and isinstance(p.get("p"), str) and (p["p"].endswith("Option::None") or p["p"].endswith("Option::Some")):
            return True
        for key in ("p", "sub"):
            if isinstance(p.get(key), dict) and self._mentions_option(p[key]):
                return True
        return any(self._mentions_option(q) for q in p.get("ps", []) if isinstance(q, dict))

    def match_pattern(self, p, v, st):
        """-> list of (state, matched).  Patterns over Option / literals are decomposed into primitive atoms
        (`is_none(x)`, `x == lit`), so that `if let None | Some(0) = x` and `x.map_or(true, |n| n == 0)`-style tests
        agree on their atoms; other patterns keep one opaque atom `x is <pattern>`."""
        if not self.simple_pattern(p):
            r = self.try_match(p, v)
            pr = self.pat_render(p)
            akey = "%s is %s" % (render(v), pr)
            out = []
            if r in ("yes", "maybe"):
                s1 = st if r == "yes" else self.with_cond(st, akey, True)
                if s1 is not None:
                    env = dict(s1.env)
                    self.bind(p, v, env)
                    out.append((s1._replace(env=env), True))
            if r in ("no", "maybe"):
                s2 = st if r == "no" else self.with_cond(st, akey, False)
                if s2 is not None:
                    out.append((s2, False))
            return out
        k = p.get("k")
        if k in ("Wild", "Missing"):
            return [(st, True)]
        if k == "Bind":
            res = self.match_pattern(p["sub"], v, st) if "sub" in p else [(st, True)]
            out = []
            for s, ok in res:
                if ok:
                    env = dict(s.env)
                    env[p["n"]] = v
                    s = s._replace(env=env)
                out.append((s, ok))
            return out
        if k in ("Ref", "Box", "Deref"):
            return self.match_pattern(p["p"], v, st)
        if k == "Lit":
            pv = ("-" if p.get("neg") else "") + p["v"]
            if v[0] == "lit":
                return [(st, _lit_eq(pv, v[1]))]
            key = "(%s == %s)" % (render(v), pv)
            self.cfg.atom_terms[key] = ("bin", "==", v, ("lit", pv))
            out = []
            for val in (True, False):
                s2 = self.with_cond(st, key, val)
                if s2 is not None:
                    out.append((s2, val))
            return out
        if k == "Or":
            out = []
            cur = [st]
            for q in p["ps"]:
                nxt = []
                for c in cur:
                    for s, ok in self.match_pattern(q, v, c):
                        if ok:
                            out.append((s, True))
                        else:
                            nxt.append(s)
                cur = nxt
            out.extend((c, False) for c in cur)
            return out
        if k == "Tuple":
            cur = [(st, True)]
            for i, q in enumerate(p["ps"]):
                nxt = []
                for c, ok in cur:
                    if not ok:
                        nxt.append((c, False))
                        continue
                    nxt.extend(self.match_pattern(q, self.project(v, str(i)), c))
                cur = nxt
            return cur
        path = p.get("p", "")
        if path.endswith("Option::None") or path.endswith("Option::Some"):
            want_none = path.endswith("Option::None")
            if v[0] in ("none", "some"):
                if (v[0] == "none") != want_none:
                    return [(st, False)]
                if want_none or not p.get("ps"):
                    return [(st, True)]
                return self.match_pattern(p["ps"][0], v[1], st)
            key = "is_none(%s)" % render(v)
            out = []
            for val in (True, False):
                s2 = self.with_cond(st, key, val)
                if s2 is None:
                    continue
                if val != want_none:
                    out.append((s2, False))
                elif want_none or not p.get("ps"):
                    out.append((s2, True))
                else:
                    out.extend(self.match_pattern(p["ps"][0], self.project(v, "Some.0"), s2))
            return out
        return [(st, True)]

    def truth(self, v):
        if v[0] == "lit" and v[1] in ("true", "false"):
            return v[1] == "true"
        if v[0] == "app" and len(v[2]) == 1:
            f = short(v[1])
            a = v[2][0]
            if f.endswith("Option::is_none") and a[0] in ("none", "some"):
                return a[0] == "none"
            if f.endswith("Option::is_some") and a[0] in ("none", "some"):
                return a[0] == "some"
        if v[0] == "un" and v[1] == "!":
            t = self.truth(v[2])
            return None if t is None else not t
        if v[0] == "bin" and v[1] in ("==", "!=") and v[2] == v[3]:
            return v[1] == "=="
        return None

    def atom(self, v):
        """-> (key, polarity): the condition holds iff atom `key` == polarity"""
        if v[0] == "un" and v[1] == "!":
            k, p = self.atom(v[2])
            return k, not p
        if v[0] == "app" and len(v[2]) == 1 and short(v[1]).endswith("Option::is_some"):
            return "is_none(%s)" % render(v[2][0]), False
        if v[0] == "app" and len(v[2]) == 1 and short(v[1]).endswith("Option::is_none"):
            return "is_none(%s)" % render(v[2][0]), True
        if v[0] == "bin" and v[1] == "!=":
            return "(%s == %s)" % (render(v[2]), render(v[3])), False
        return render(v), True

    # ------------------------------------------------------------------ expressions
    def ev_seq(self, nodes, st, depth):
        """evaluate nodes left to right -> list of (state, [values])"""
        outs = [(st, [])]
        for n in nodes:
            nxt = []
            for s, vals in outs:
                if s.flow:
                    nxt.append((s, vals + [("lit", "!")]))
                    continue
                for s2, v in self.ev(n, s, depth):
                    nxt.append((s2, vals + [v]))
            outs = self.fork_guard(nxt)
        return outs

    def ev(self, n, st, depth):
        """-> list of (state, value)"""
        if st.flow:
            return [(st, ("lit", "!"))]
        if not isinstance(n, dict):
            return [(st, ("lit", "()"))]
        k = n.get("k")
        m = getattr(self, "ev_" + str(k), None)
        if m is None:
            if k is None and "ss" in n:
                return self.ev_Block(n, st, depth)
            return [(st, ("app", "?" + str(k), ()))]
        return m(n, st, depth)

    def ev_Lit(self, n, st, depth):
        return [(st, ("lit", n["v"]))]

    def ev_Path(self, n, st, depth):
        rk = n.get("rk", "")
        if rk == "Local":
            v = st.env.get(n["p"])
            return [(st, v if v is not None else ("sym", n["p"]))]
        p = n["p"]
        if p.endswith("Option::None"):
            return [(st, ("none",))]
        if rk.startswith("Ctor"):
            return [(st, ("ctor", p, ()))]
        return [(st, ("sym", p.split("::")[-1]))]

    def ev_Paren(self, n, st, depth):
        return self.ev(n["e"], st, depth)
    ev_Use = ev_Type = ev_AddrOf = ev_Paren

    def ev_Cast(self, n, st, depth):
        return self.ev(n["e"], st, depth)

    def ev_Unary(self, n, st, depth):
        out = []
        for s, v in self.ev(n["e"], st, depth):
            if n.get("op") == "*":
                out.append((s, v))
            else:
                out.append((s, ("un", n["op"], v)))
        return out

    def ev_Binary(self, n, st, depth):
        if n.get("op") in ("&&", "||"):
            return [(s, ("lit", "true" if b else "false")) for s, b in self.cond(n, st, depth)]
        out = []
        for s, (a, b) in self.ev_seq([n["l"], n["r"]], st, depth):
            out.append((s, ("bin", n["op"], a, b)))
        return out

    def ev_Field(self, n, st, depth):
        out = []
        for s, v in self.ev(n["e"], st, depth):
            out.append((s, self.project(v, n["n"])))
        return out

    def ev_Index(self, n, st, depth):
        out = []
        for s, (a, b) in self.ev_seq([n["e"], n["i"]], st, depth):
            out.append((s, ("app", "index", (a, b))))
        return out

    def ev_Tup(self, n, st, depth):
        return [(s, ("tuple", tuple(vs))) for s, vs in self.ev_seq(n["es"], st, depth)]

    def ev_Array(self, n, st, depth):
        return [(s, ("app", "array", tuple(vs))) for s, vs in self.ev_seq(n["es"], st, depth)]

    def ev_Struct(self, n, st, depth):
        names = [f for f, _ in n["fs"]]
        nodes = [e for _, e in n["fs"]]
        if "base" in n:
            nodes = nodes + [n["base"]]
        out = []
        for s, vs in self.ev_seq(nodes, st, depth):
            if n["p"] in SP_PATHS:
                d = dict(zip(names, vs))
                out.append((s, d.get("value", ("app", "Sp", tuple(vs)))))
                continue
            fields = [(f, v) for f, v in zip(names, vs) if f not in self.cfg.drop_fields]
            if "base" in n:
                fields.append(("..", vs[-1]))
            out.append((s, ("ctor", n["p"], tuple(sorted(fields)))))
        return out

    def ev_Closure(self, n, st, depth):
        body = None
        try:
            env = dict(st.env)
            names = []
            for i, p in enumerate(n["ps"]):
                nm = p.get("n", "p%d" % i) if p.get("k") == "Bind" else "p%d" % i
                names.append(nm)
                self.bind(p, ("sym", nm), env)
            res = [r for r in self.ev(n["b"], State(env, (), (), 0, None, None), depth + 1) if r[0].flow != "diverge"]
            if len(res) == 1:
                res = [(res[0][0]._replace(conds=()), res[0][1])]      # the only surviving path: its conditions are assertion preconditions
            if len(res) > 1 and all(not r[0].events and not r[0].flow and r[1] == res[0][1] and r[0].env == res[0][0].env for r in res):
                res = [(res[0][0]._replace(conds=()), res[0][1])]
            if len(res) == 1 and not res[0][0].events and not res[0][0].conds and not res[0][0].flow:
                sets = tuple(("app", "set " + nm, (v,)) for nm, v in sorted(res[0][0].env.items())
                             if nm in st.env and st.env[nm] != v and not nm.startswith("@"))
                body = ("app", "|%s|" % ",".join(names), (res[0][1],) + sets)
        except RecursionError:
            body = None
        return [(st, ("closure", id(n), n, tuple(sorted(st.env.items(), key=lambda kv: kv[0])), body))]

    def ev_Assign(self, n, st, depth):
        out = []
        for s, v in self.ev(n["r"], st, depth):
            l = n["l"]
            while l.get("k") in ("Paren",) or (l.get("k") == "Unary" and l.get("op") == "*"):
                l = l["e"]
            if l.get("k") == "Path" and l.get("rk") == "Local":
                env = dict(s.env)
                tgt = env.get(l["p"], ("sym", l["p"]))
                if l is not n["l"] and _rooted_in_sym(tgt):
                    # `*param = v` / `*param.field = v`: a store through a reference parameter is an effect
                    s = self.emit(s, ("store", "*" + render(tgt), v))
                env[l["p"]] = v
                s = s._replace(env=env)
            elif l.get("k") == "Field" and self._root_local(l) is not None:
                root, fields = self._root_local(l)
                env = dict(s.env)
                old = env.get(root, ("sym", root))
                if _rooted_in_sym(old) or (old[0] == "upd" and _rooted_in_sym(_upd_base(old))):
                    # a field store through a (reference) parameter is visible to the caller: an effect
                    s = self.emit(s, ("store", render(_upd_base(old)) + "".join("." + f for f in fields), v))
                env[root] = ("upd", old, ".".join(f for f in fields if f != "value"), v)
                s = s._replace(env=env)
            else:
                pl = self.place_render(l, s)
                if pl is not None and pl in self.cfg.sinks:
                    s = self.emit(s, ("store", pl, v))
                elif pl is not None:
                    env = dict(s.env)
                    env["@" + pl] = v
                    s = s._replace(env=env)
            out.append((s, ("lit", "()")))
        return out

    def _root_local(self, l):
        fields = []
        while isinstance(l, dict) and l.get("k") == "Field":
            fields.append(l["n"])
            l = l["e"]
        if isinstance(l, dict) and l.get("k") == "Path" and l.get("rk") == "Local" and l["p"] != "self":
            return l["p"], list(reversed(fields))
        return None

    def ev_AssignOp(self, n, st, depth):
        out = []
        for s, v in self.ev(n["r"], st, depth):
            l = n["l"]
            if l.get("k") == "Path" and l.get("rk") == "Local":
                env = dict(s.env)
                old = env.get(l["p"], ("sym", l["p"]))
                env[l["p"]] = ("bin", n["op"].rstrip("="), old, v)
                s = s._replace(env=env)
            out.append((s, ("lit", "()")))
        return out

    def ev_Ret(self, n, st, depth):
        if "e" in n:
            out = []
            for s, v in self.ev(n["e"], st, depth):
                is_err = v[0] == "ctor" and v[1].endswith("Result::Err")
                out.append((s._replace(flow=s.flow or ("error" if is_err else "return"), ret=v), ("lit", "!")))
            return out
        return [(st._replace(flow="return", ret=("lit", "()")), ("lit", "!"))]

    def ev_Break(self, n, st, depth):
        return [(st._replace(flow="break"), ("lit", "!"))]

    def ev_Continue(self, n, st, depth):
        return [(st._replace(flow="continue"), ("lit", "!"))]

    def ev_Block(self, n, st, depth):
        x = n.get("x", "")
        if n.get("never") and ("panic" in x or "unreachable" in x or "assert" in x):
            return [(st._replace(flow="diverge"), ("lit", "!"))]
        states = [st]
        for stmt in n.get("ss") or []:
            nxt = []
            for s in states:
                if s.flow:
                    nxt.append(s)
                    continue
                if stmt.get("k") == "Let":
                    if "i" not in stmt:
                        nxt.append(s)
                        continue
                    for s2, v in self.ev(stmt["i"], s, depth):
                        if s2.flow:
                            nxt.append(s2)
                            continue
                        r = self.try_match(stmt["p"], v) if "els" in stmt else "yes"
                        if r in ("yes", "maybe"):
                            s3 = s2 if r == "yes" else self.with_cond(s2, "%s is %s" % (render(v), self.pat_render(stmt["p"])), True)
                            if s3 is not None:
                                env = dict(s3.env)
                                self.bind(stmt["p"], v, env)
                                nxt.append(s3._replace(env=env))
                        if r in ("no", "maybe") and "els" in stmt:
                            s4 = s2 if r == "no" else self.with_cond(s2, "%s is %s" % (render(v), self.pat_render(stmt["p"])), False)
                            if s4 is not None:
                                for s5, _ in self.ev_Block(stmt["els"], s4, depth):
                                    nxt.append(s5)
                else:
                    for s2, _ in self.ev(stmt.get("e"), s, depth):
                        nxt.append(s2)
            states = self.fork_guard(nxt)
        out = []
        for s in states:
            if s.flow or "e" not in n:
                out.append((s, ("lit", "()")))
            else:
                out.extend(self.ev(n["e"], s, depth))
        # block-local names do not leak, but keeping them is harmless for a forward evaluator
        return out

    def ev_If(self, n, st, depth):
        out = []
        for s, b in self.cond(n["c"], st, depth):
            if s.flow:
                out.append((s, ("lit", "!")))
            elif b:
                out.extend(self.ev(n["t"], s, depth))
            elif "el" in n:
                out.extend(self.ev(n["el"], s, depth))
            else:
                out.append((s, ("lit", "()")))
        return self.merge_env(out, st)

    def merge_env(self, outs, st):
        return outs

    def ev_Match(self, n, st, depth):
        if n.get("src") == "ForLoopDesugar":
            return self.for_loop(n, st, depth)
        if (n.get("src") or "").startswith("TryDesugar"):
            # `expr?`: the error path leaves the function (flow "error"); the success path continues with the payload
            inner = n["s"]["a"][0] if n["s"].get("k") == "Call" and n["s"].get("a") else n["s"]
            out = []
            for s, v in self.ev(inner, st, depth):
                if s.flow:
                    out.append((s, ("lit", "!")))
                    continue
                out.append((s, ("app", "?", (v,))))
                if self.cfg.error_paths:
                    se = self.with_cond(s, "fails(%s)" % render(v), True)
                    if se is not None:
                        out.append((se._replace(flow="error"), ("lit", "!")))
            return out
        x = n.get("x", "")
        out = []
        for s, v in self.ev(n["s"], st, depth):
            if s.flow:
                out.append((s, ("lit", "!")))
                continue
            if v[0] not in ("none", "some") and all(self.simple_pattern(a["p"]) for a in n["arms"]) and \
                    any(self._mentions_option(a["p"]) for a in n["arms"]):
                # a match over an Option (possibly with literal payloads and guards): decompose into primitive atoms
                cur = [s]
                for arm in n["arms"]:
                    nxt = []
                    for c in cur:
                        for c2, ok in self.match_pattern(arm["p"], v, c):
                            if not ok:
                                nxt.append(c2._replace(env=c.env))
                                continue
                            if "g" in arm:
                                for cg, b_ in self.cond(arm["g"], c2, depth):
                                    if b_:
                                        out.extend(self.ev(arm["b"], cg, depth))
                                    else:
                                        nxt.append(cg._replace(env=c.env))
                            else:
                                out.extend(self.ev(arm["b"], c2, depth))
                    cur = nxt
                continue
            pats = tuple(self.pat_render(a["p"]) + (" if .." if "g" in a else "") for a in n["arms"])
            key = "match %s {%s}" % (render(v), ", ".join(pats))
            optkey = "is_none(%s)" % render(v) if sorted(pats) in (["None", "Some"], ["None", "_"], ["Some", "_"]) and "_" != pats[0] else None
            had_maybe = False
            cur = [(s, frozenset())]          # (state, base patterns already known not to match on this continuation)
            for ai, arm in enumerate(n["arms"]):
                if not cur:
                    break
                r = self.try_match(arm["p"], v)
                if r == "no":
                    continue
                base_pat = self.pat_render(arm["p"])
                nxt = []
                for c, excl in cur:
                    if base_pat in excl:
                        nxt.append((c, excl))          # structurally the same pattern as an earlier arm that did not match
                        continue
                    if optkey is not None:
                        c_yes = c if (r == "yes" and not had_maybe) else self.with_cond(c, optkey, pats[ai].startswith("None"))
                    else:
                        c_yes = c if (r == "yes" and not had_maybe) else self.with_cond(c, key, pats[ai], pats)
                    if c_yes is not None:
                        env = dict(c_yes.env)
                        self.bind(arm["p"], v, env)
                        c_in = c_yes._replace(env=env)
                        if "g" in arm:
                            for cg, b_ in self.cond(arm["g"], c_in, depth):
                                if b_:
                                    out.extend(self.ev(arm["b"], cg, depth))
                                else:
                                    # pattern matched, guard false: later arms with the same pattern can still match
                                    nxt.append((cg._replace(env=c.env, conds=tuple(x for x in cg.conds if x[0] not in (key, optkey))), excl))
                        else:
                            out.extend(self.ev(arm["b"], c_in, depth))
                    if r == "maybe":
                        # pattern did not match at all
                        nxt.append((c, excl | {base_pat}))
                if r == "maybe":
                    had_maybe = True
                cur = nxt
                if r == "yes" and "g" not in arm:
                    cur = []
            # anything left over fell through every arm (only possible for opaque scrutinees whose last arm is refutable)
        return self.fork_guard(out)

    def for_loop(self, n, st, depth):
        out = []
        it_node = n["s"]
        if it_node.get("k") == "Call" and it_node.get("a"):
            it_node = it_node["a"][0]
        loop = n["arms"][0]["b"]
        body_match = None
        for stmt in loop["b"]["ss"]:
            e = stmt.get("e")
            if isinstance(e, dict) and e.get("k") == "Match":
                body_match = e
        some_arm = [a for a in body_match["arms"] if a["p"].get("p", "").endswith("Option::Some")][0]
        pat = some_arm["p"]["ps"][0] if some_arm["p"].get("k") == "TS" else some_arm["p"]["fs"][0][1]
        for s, itv in self.ev(it_node, st, depth):
            if s.flow:
                out.append((s, ("lit", "!")))
                continue
            elem = ("elem", itv)
            env = dict(s.env)
            for nm in _assigned_locals(some_arm["b"]):
                if nm in env:
                    env[nm] = ("sym", nm)          # loop-carried: unknown at the start of an iteration
            self.bind(pat, elem, env)
            inner0 = State(env, s.conds, (), s.fresh, None, None)
            subs = []
            npre = len(s.conds)
            for s2, _ in self.ev(some_arm["b"], inner0, depth):
                evs2 = s2.events
                for nm in sorted(s.env):
                    if nm in s2.env and s2.env[nm] != env.get(nm) and not nm.startswith("@"):
                        evs2 = evs2 + (("set", nm, s2.env[nm]),)
                subs.append((s2.conds[npre:], evs2, s2.flow if s2.flow in ("break", "return", "diverge", "error") else None))
            ev = ("loop", render(itv), tuple(subs))
            env_after = dict(s.env)
            for nm in _assigned_locals(some_arm["b"]):
                if nm in env_after:
                    env_after[nm] = ("sym", nm)     # and unknown after the loop
            out.append((self.emit(s, ev)._replace(env=env_after), ("lit", "()")))
        return out

    def ev_Loop(self, n, st, depth):
        # `loop {}` / `while` bodies: one symbolic iteration
        inner0 = State(dict(st.env), st.conds, (), st.fresh, None, None)
        subs = []
        npre = len(st.conds)
        for s2, _ in self.ev_Block(n["b"], inner0, depth):
            subs.append((s2.conds[npre:], s2.events, s2.flow if s2.flow in ("break", "return", "diverge") else None))
        return [(self.emit(st, ("loop", n.get("src", "loop"), tuple(subs))), ("lit", "()"))]

    # ------------------------------------------------------------------ calls
    def ev_Call(self, n, st, depth):
        f = n.get("f")
        rk = n.get("rk", "")
        if f is None and "fe" in n:
            nodes = [n["fe"]] + n["a"]
            out = []
            for s, vs in self.ev_seq(nodes, st, depth):
                out.extend(self.apply_value(vs[0], vs[1:], s, depth, n))
            return out
        out = []
        for s, vs in self.ev_seq(n["a"], st, depth):
            if s.flow:
                out.append((s, ("lit", "!")))
                continue
            if rk == "Local":
                callee = s.env.get(f)
                out.extend(self.apply_value(callee if callee is not None else ("sym", f), vs, s, depth, n))
            elif rk.startswith("Ctor"):
                if f.endswith("Option::Some"):
                    out.append((s, ("some", vs[0])))
                else:
                    out.append((s, ("ctor", f, tuple((str(i), v) for i, v in enumerate(vs)))))
            else:
                out.extend(self.apply_fn(f, vs, s, depth, n))
        return out

    def ev_MCall(self, n, st, depth):
        f = n.get("f") or ("?" + n.get("m", ""))
        out = []
        # emission sink?
        if f.endswith("Vec::<T, A>::push") or f.endswith("Vec::<T, A>::insert") or f.endswith("Vec::<T, A>::extend") or f.endswith("String::push") or f.endswith("String::push_str"):
            pl = self.place_render(n["r"], st)
            if pl is not None and pl in self.cfg.sinks:
                for s, vs in self.ev_seq(n["a"], st, depth):
                    if s.flow:
                        out.append((s, ("lit", "!")))
                    else:
                        what = f.split("::")[-1]
                        out.append((self.emit(s, ("emit",) + tuple(vs) if what != "push" else ("emit", vs[0])), ("lit", "()")))
                return out
        for s, vs in self.ev_seq([n["r"]] + n["a"], st, depth):
            if s.flow:
                out.append((s, ("lit", "!")))
                continue
            out.extend(self.apply_fn(f, vs, s, depth, n))
        return out

    def apply_value(self, callee, args, st, depth, n):
        if callee[0] == "closure":
            _, _, node, envitems = callee[:4]
            env = dict(envitems)
            for p, v in zip(node["ps"], args):
                self.bind(p, v, env)
            inner = st._replace(env=env)
            out = []
            for s2, v in self.ev(node["b"], inner, depth + 1):
                flow = None if s2.flow == "return" else s2.flow
                val = s2.ret if s2.flow == "return" else v
                out.append((s2._replace(env=st.env, flow=flow, ret=None), val))
            return out
        return [(st, ("app", "call", (callee,) + tuple(args)))]

    def apply_fn(self, f, vs, st, depth, n):
        sf = short(f)
        if any(sf.endswith(t) or f.endswith(t) for t in TRANSPARENT_SUFFIX) and vs:
            return [(st, vs[0])]
        last = sf.split("::")[-1]
        if vs and last in TRANSPARENT_LAST and ("::option::Option" in f or "::clone::" in f or "::convert::" in f or "::borrow::" in f or "::boxed::" in f):
            return [(st, vs[0])]
        if n.get("never"):
            return [(st._replace(flow="diverge"), ("lit", "!"))]
        if sf.endswith("box_assume_init_into_vec_unsafe") and vs:
            return [(st, vs[0])]
        if sf.endswith("write_box_via_move") and len(vs) > 1:
            return [(st, ("app", "vec", vs[1][2]) if vs[1][0] == "app" and vs[1][1] == "array" else vs[1])]
        if sf.endswith("slice::<impl [T]>::into_vec") and vs:
            return [(st, ("app", "vec", vs[0][2]) if vs[0][0] == "app" and vs[0][1] == "array" else vs[0])]
        for t in self.cfg.fresh_calls:
            if sf.endswith(t):
                tag = render(vs[-1]).strip('"') if len(vs) > 1 else t
                return [(st._replace(fresh=st.fresh + 1), ("fresh", tag, st.fresh))]
        if f in self.cfg.recurse_to or sf in self.cfg.recurse_to:
            return [(self.emit(st, ("recurse", sf.split("::")[-1], tuple(vs[1:]))), ("lit", "()"))]
        if self.cfg.effect_re is not None and self.cfg.effect_re.search(sf):
            return [(self.emit(st, ("effect", sf.split("::")[-1], tuple(vs))), ("app", sf, tuple(vs)))]
        for t in self.cfg.effect_calls:
            if sf == t or sf.endswith("::" + t):
                st2 = self.emit(st, ("effect", t.split("::")[-1], tuple(vs)))
                r = n.get("r") if n.get("k") == "MCall" else None
                while isinstance(r, dict) and r.get("k") in ("AddrOf", "Paren"):
                    r = r["e"]
                if isinstance(r, dict) and r.get("k") == "Path" and r.get("rk") == "Local" and r["p"] != "self" and r["p"] in st2.env:
                    env = dict(st2.env)
                    env[r["p"]] = ("sym", r["p"])      # mutated through &mut self: value unknown from here on
                    st2 = st2._replace(env=env)
                return [(st2, ("app", sf, tuple(vs)))]
        if sf.endswith("Option::<T>::or") or sf.endswith("Option::or"):
            a, b = vs[0], vs[1]
            if a[0] == "none":
                return [(st, b)]
            if a[0] == "some":
                return [(st, a)]
        fn = self.db.fns.get(f)
        if fn is not None and depth < self.cfg.max_depth and not any(x in f for x in self.cfg.no_inline) and (f in self.cfg.inline_exact or sf in self.cfg.inline_exact or any(f.startswith(p) or sf.startswith(p) for p in self.cfg.inline_prefixes)):
            env = {}
            for i, p in enumerate(fn.d.get("hparams") or []):
                if i < len(vs):
                    self.bind(p, vs[i], env)
            inner = st._replace(env=env)
            out = []
            for s2, v in self.ev(fn.hir, inner, depth + 1):
                flow = None if s2.flow == "return" else s2.flow
                val = s2.ret if s2.flow == "return" else v
                out.append((s2._replace(env=st.env, flow=flow, ret=None), val))
            return out
        return [(st, ("app", sf, tuple(vs)))]

    def ev_ConstBlock(self, n, st, depth):
        return [(st, ("app", "const-block", ()))]


# ---------------------------------------------------------------------- canonical form

def _renumber(x, mp):
    if isinstance(x, tuple):
        if len(x) == 3 and x[0] == "fresh":
            key = (x[1], x[2])
            if key not in mp:
                mp[key] = len(mp)
            return ("fresh", x[1], mp[key])
        if x and x[0] == "closure":
            return ("closure", 0, None, (), _renumber(x[4], mp) if len(x) > 4 and x[4] is not None else None)
        return tuple(_renumber(y, mp) for y in x)
    return x


ALIASES = []      # [(long text, alias)] applied to rendered events and condition keys, longest first


def set_aliases(pairs):
    global ALIASES
    ALIASES = sorted(pairs, key=lambda p: -len(p[0]))


def alias(text):
    for a, b in ALIASES:
        text = text.replace(a, b)
    return text


def render_event(e):
    return alias(_render_event(e))


def _render_event(e):
    k = e[0]
    if k == "emit":
        return "emit " + ", ".join(render(x) for x in e[1:])
    if k == "store":
        return "store %s = %s" % (e[1], render(e[2]))
    if k == "set":
        return "%s := %s" % (e[1], render(e[2]))
    if k == "recurse":
        return "recurse %s(%s)" % (e[1], ", ".join(render(x) for x in e[2]))
    if k == "effect":
        return "effect %s(%s)" % (e[1], ", ".join(render(x) for x in e[2]))
    if k == "loop":
        subs = canonical_paths([(c, ev, fl) for c, ev, fl in e[2]])
        return "loop over %s [" % e[1] + " || ".join(subs) + "]"
    return repr(e)


def _rows(paths):
    rows = []
    doms = {}
    for conds, events, flow in paths:
        if flow in ("diverge", "error"):
            continue
        mp = {}
        evs = tuple(render_event(_renumber(e, mp)) for e in events)
        if flow:
            evs = evs + ("<%s>" % flow,)
        cd = {}
        for k, v, dom in conds:
            k = alias(k)
            cd[k] = v
            doms[k] = tuple(dom)
        rows.append((cd, evs))
    return rows, doms


def table(paths, max_rows=200000):
    """the path set as a total function: (keys, doms, {assignment tuple -> frozenset of event tuples});
    keys the function does not depend on are removed, so the result is canonical for what is emitted when."""
    import itertools
    rows, doms = _rows(paths)
    keys = sorted(doms)
    n = 1
    for k in keys:
        n *= len(doms[k])
    if n > max_rows:
        raise RuntimeError("symeval: condition space too large (%d)" % n)
    tab = {}
    for assign in itertools.product(*[doms[k] for k in keys]):
        a = dict(zip(keys, assign))
        evs = frozenset(e for cd, e in rows if all(a[k] == v for k, v in cd.items()))
        tab[assign] = evs
    # drop keys the function does not depend on
    changed = True
    while changed:
        changed = False
        for i, k in enumerate(keys):
            proj = {}
            ok = True
            for assign, evs in tab.items():
                rest = assign[:i] + assign[i + 1:]
                if rest in proj and proj[rest] != evs:
                    ok = False
                    break
                proj[rest] = evs
            if ok:
                keys = keys[:i] + keys[i + 1:]
                tab = proj
                changed = True
                break
    return keys, dict((k, doms[k]) for k in keys), tab


def _lab(k, val):
    if val is True:
        return k
    if val is False:
        return "!" + k
    return "%s -> %s" % (k, val)


def table_lines(keys, doms, tab):
    out = []
    for assign in sorted(tab, key=lambda a: tuple(str(x) for x in a)):
        for evs in sorted(tab[assign]):
            out.append("%s => %s" % (" & ".join(_lab(k, v) for k, v in zip(keys, assign)) or "always",
                                     " ; ".join(evs) if evs else "(nothing)"))
        if not tab[assign]:
            out.append("%s => <no path>" % (" & ".join(_lab(k, v) for k, v in zip(keys, assign)) or "always"))
    return out


def canonical_paths(paths):
    keys, doms, tab = table(paths)
    return table_lines(keys, doms, tab)


def compare_tables(ta, tb):
    """-> list of (assignment description, events in a, events in b) where the two functions differ"""
    import itertools
    ka, da, fa = ta
    kb, db_, fb = tb
    keys = sorted(set(ka) | set(kb))
    doms = {}
    for k in keys:
        doms[k] = tuple(dict.fromkeys(list(da.get(k, ())) + list(db_.get(k, ()))))
    diffs = []
    for assign in itertools.product(*[doms[k] for k in keys]):
        a = dict(zip(keys, assign))
        ea = fa.get(tuple(a[k] for k in ka))
        eb = fb.get(tuple(a[k] for k in kb))
        if ea is None:
            ea = frozenset()
        if eb is None:
            eb = frozenset()
        if ea != eb:
            diffs.append((" & ".join(_lab(k, v) for k, v in zip(keys, assign)) or "always", ea, eb))
    return diffs


def display_lines(paths):
    """compact decision-tree rendering for humans (key order: most widely used first)"""
    rows, doms = _rows(paths)
    out = []

    def rec(rows, prefix):
        live = {}
        for cd, _ in rows:
            for k in cd:
                live[k] = live.get(k, 0) + 1
        if not live:
            for evs in sorted(set(e for _, e in rows)):
                out.append("%s => %s" % (" & ".join(prefix) or "always", "\n      ; ".join(evs) if evs else "(nothing)"))
            return
        k = sorted(live, key=lambda x: (-live[x], x))[0]
        subs = []
        for val in doms[k]:
            sub = [(dict((a, b) for a, b in cd.items() if a != k), evs) for cd, evs in rows if cd.get(k, val) == val]
            subs.append((val, sub))
        if all(sorted(map(repr, s)) == sorted(map(repr, subs[0][1])) for _, s in subs):
            rec(subs[0][1], prefix)
            return
        for val, sub in subs:
            if sub:
                rec(sub, prefix + [_lab(k, val)])
    rec(rows, [])
    return out


# ---------------------------------------------------------------------- algebraic normal forms of terms

def bool_table(term, atoms, universe_complement=("complement",)):
    """truth table (tuple of 0/1, one per assignment of `atoms`) of a bit-set expression built from & | ^ ! and
    complement(x, n); sub-terms whose rendering is in `atoms` are the variables.  None if another operator occurs."""
    import itertools
    names = list(atoms)

    def ev(t, a):
        r = render(t)
        if r in a:
            return a[r]
        if t[0] == "bin" and t[1] in ("&", "|", "^"):
            x, y = ev(t[2], a), ev(t[3], a)
            if x is None or y is None:
                return None
            return {"&": x & y, "|": x | y, "^": x ^ y}[t[1]]
        if t[0] == "un" and t[1] == "!":
            x = ev(t[2], a)
            return None if x is None else 1 - x
        if t[0] == "app" and short(t[1]).split("::")[-1] in universe_complement and t[2]:
            x = ev(t[2][0], a)
            return None if x is None else 1 - x
        return None
    out = []
    for bits in itertools.product((0, 1), repeat=len(names)):
        v = ev(term, dict(zip(names, bits)))
        if v is None:
            return None
        out.append(v)
    return tuple(out)


def linear_form(term):
    """integer-linear normal form {rendered atom: coefficient, 1: constant} of a term built from + - and literals; casts are transparent"""
    def lf(t, sign, acc):
        if t[0] == "bin" and t[1] in ("+", "-"):
            lf(t[2], sign, acc)
            lf(t[3], sign if t[1] == "+" else -sign, acc)
            return
        if t[0] == "lit":
            try:
                acc[1] = acc.get(1, 0) + sign * int(str(t[1]).split("_")[0].rstrip("ui3264size"), 0)
                return
            except ValueError:
                pass
        if t[0] == "app" and short(t[1]).split("::")[-1] in ("unwrap", "expect") and t[2]:
            lf(t[2][0], sign, acc)
            return
        k = render(t)
        acc[k] = acc.get(k, 0) + sign
    acc = {}
    lf(term, 1, acc)
    return dict((k, v) for k, v in acc.items() if v != 0)


def fn_paths(db, fid, effect_re=None, **cfgkw):
    """all non-diverging paths of a function as (conds, events + return value, flow)"""
    fn = db.fn(fid)
    cfg = Config(db, fid, **cfgkw)
    cfg.effect_re = effect_re
    ev = Evaluator(cfg)
    fn_paths.last_atom_terms = cfg.atom_terms
    out = []
    for st, v in ev.run_fn(fn):
        if st.flow in ("diverge",):
            continue
        ret = st.ret if st.flow == "return" else v
        fl = st.flow if st.flow == "error" else None
        out.append((st.conds, st.events + ((("set", "<ret>", ret),) if ret is not None and fl is None else ()), fl, st))
    return out
