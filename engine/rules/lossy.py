"""R-LOSSY: a value must not be narrowed on its way into the output file without a range check.

For every narrowing integer cast (`as` to fewer bits) in writer-side code the value is followed
forward (intra-procedurally, through copies, widening casts, arithmetic, tuples/Option wrapping)
to see whether it reaches a *file sink*: an io::BinWrite primitive, a byte pushed on a blob, a
field of a file-model struct, or the return value of a function/closure that produces such data.
Such a cast must be discharged:
  const     the operand is a compile-time constant
  guard     the cast is dominated by a comparison of the same source value whose failing edge
            leaves the function with an error (or panics)
  mask      the operand was masked / reduced (`& C`, `% C`, `>> k`, `min(C)`) to fit
  len-of-fixed  (none today)
"""
import re
from facts import callee, op_local, op_place, place_local, place_proj

BITS = {'i8': 8, 'u8': 8, 'i16': 16, 'u16': 16, 'i32': 32, 'u32': 32, 'i64': 64, 'u64': 64,
        'usize': 64, 'isize': 64, 'i128': 128, 'u128': 128}
WRITE_PRIM = re.compile(r"^(io::BinWrite::write_(i8|u8|i16|u16|i32|u32|i64|u64|f32|f64)|byteorder::io::WriteBytesExt::write_\w+)$")
FILE_MODEL_ADT = re.compile(r"^(formats::|llir::RawInstr$|llir::lower::LowerInstr$|ast::pseudo::PseudoArgData$|llir::RawLabelInfo|raw::)")


FILE_DOMAIN_FN = re.compile(r"^<?(formats::|llir::|ast::pseudo::|context::defs::<impl context::CompilerContext<'_>>::(define_|set_ins_abi)|context::defs::Defs::add_intrinsic_instr)")


def narrowing_casts(db, f):
    for bi, b in enumerate(f.blocks):
        for si, s in enumerate(b["s"]):
            if s["r"] == "cast" and s["ck"] == "IntToInt":
                a = db.types[s["from"]]
                c = db.types[s["to"]]
                if a in BITS and c in BITS and BITS[a] > BITS[c]:
                    yield bi, si, s, a, c


def defs_of(f):
    """local -> list of (bb, stmt) assigning the bare local; plus call dests"""
    d = {}
    for bi, b in enumerate(f.blocks):
        for si, s in enumerate(b["s"]):
            if not place_proj(s["d"]):
                d.setdefault(place_local(s["d"]), []).append((bi, si, s))
        t = b["t"]
        if t["k"] == "call" and not place_proj(t["d"]):
            d.setdefault(place_local(t["d"]), []).append((bi, -1, t))
    return d


def forward_sinks(db, f, start_local, start_bb, call_sink=None):
    """follow the value; return list of sink descriptions"""
    sinks = []
    seen = set()
    checked_tuples = set()
    work = [start_local]
    while work:
        l = work.pop()
        if l in seen:
            continue
        seen.add(l)
        if l == 0:
            if FILE_DOMAIN_FN.match(f.id):
                sinks.append(("return", "returned from %s" % f.id))
            continue
        for bi, b in enumerate(f.blocks):
            if b.get("cleanup"):
                continue
            for s in b["s"]:
                used = False
                for k in ("o", "a", "b"):
                    if k in s and isinstance(s[k], dict) and op_local(s[k]) == l:
                        used = True
                    elif k in s and isinstance(s[k], dict) and l in checked_tuples:
                        # `_x = move (_t.0)` where _t is the (value, overflowed) pair of checked arithmetic on the value
                        pl = op_place(s[k])
                        if pl is not None and pl.get("l") == l and [e[1] for e in pl.get("p", []) if isinstance(e, list)] == ["0"]:
                            used = True
                for o in s.get("ops", []):
                    if op_local(o) == l:
                        used = True
                if not used:
                    continue
                d = s["d"]
                r = s["r"]
                proj = place_proj(d)
                if proj:
                    # store into a field
                    fld = [e for e in proj if isinstance(e, list) and e[0] == "f"]
                    if fld and FILE_MODEL_ADT.match(fld[-1][2] or ""):
                        sinks.append(("field", "stored in %s.%s" % (fld[-1][2], fld[-1][1])))
                    else:
                        work.append(place_local(d))
                    continue
                if r == "agg":
                    if s.get("ak") == "adt" and FILE_MODEL_ADT.match(s.get("adt", "")):
                        idx = [i for i, o in enumerate(s["ops"]) if op_local(o) == l]
                        names = s.get("fn", [])
                        fn = ",".join(names[i] if i < len(names) else str(i) for i in idx)
                        sinks.append(("field", "stored in %s.%s" % (s["adt"], fn)))
                    else:
                        work.append(place_local(d))
                elif r in ("use", "cast", "binop", "unop", "repeat"):
                    if r == "binop" and s["op"] in ("Eq", "Ne", "Lt", "Le", "Gt", "Ge", "Cmp"):
                        continue
                    if r == "binop" and s["op"].endswith("WithOverflow"):
                        checked_tuples.add(place_local(d))
                    work.append(place_local(d))
            t = b["t"]
            if t["k"] == "call":
                for ai, o in enumerate(t["a"]):
                    if op_local(o) == l:
                        c = t.get("f", "")
                        if WRITE_PRIM.match(c):
                            sinks.append(("write", "written by %s (line %d)" % (c.split("::")[-1], t["ln"])))
                        elif c.startswith("alloc::vec::Vec::<T, A>::push") and "u8" in (t.get("ga") or [""])[0]:
                            sinks.append(("blob", "pushed as a blob byte (line %d)" % t["ln"]))
                        elif c in ("core::option::Option::<T>::unwrap_or", "core::cmp::Ord::min", "core::cmp::Ord::max",
                                   "core::convert::Into::into", "core::convert::From::from", "core::option::Option::Some"):
                            work.append(place_local(t["d"]))
                        elif call_sink is not None and call_sink.match(c):
                            sinks.append(("call", "passed to %s (arg %d)" % (c, ai)))
                        elif (c in db.fns or c in db.trait_impls()) and FILE_DOMAIN_FN.match(c):
                            sinks.append(("call", "passed to %s (arg %d)" % (c, ai)))
                        # foreign calls (formatting, comparisons, indexing...) are not file sinks
    return sinks


def _aliases_backward(f, local, defs, depth=6):
    """locals the given local was copied / widened from (same value)"""
    out = {local}
    work = [(local, 0)]
    while work:
        l, d = work.pop()
        if d > depth:
            continue
        for bi, si, s in defs.get(l, []):
            if si == -1:
                continue
            if s["r"] in ("use",) or (s["r"] == "cast" and s.get("ck") in ("IntToInt",)):
                src = op_local(s["o"])
                if src is not None and src not in out:
                    out.add(src)
                    work.append((src, d + 1))
    return out


def discharge(db, f, bi, si, s, defs):
    """returns (kind, detail) or None"""
    o = s["o"]
    if "c" in o or "iv" in o:
        return ("const", "operand is the constant %s" % o.get("c"))
    src = op_local(o)
    if src is None:
        # a place with projections (field read): look for a guard on the same place
        return None
    to_bits = BITS[db.types[s["to"]]]
    # mask / reduce
    for dbi, dsi, ds in defs.get(src, []):
        if dsi == -1:
            c = ds.get("f", "")
            if c in ("core::cmp::Ord::min", "core::cmp::min") and any("iv" in a for a in ds["a"]):
                return ("mask", "operand is min(_, const)")
            if c.endswith("::instr_header_size"):
                return ("const", "operand is instr_header_size() (a small constant per format)")
            if c.endswith("::count_ones") or c.endswith("::trailing_zeros") or c.endswith("::leading_zeros"):
                return ("mask", "operand is a bit count (<= 128)")
            continue
        if ds["r"] == "binop":
            op = ds["op"]
            consts = [x.get("iv") for x in (ds["a"], ds["b"]) if isinstance(x, dict) and "iv" in x]
            if op == "BitAnd" and consts and 0 <= consts[0] < (1 << to_bits):
                return ("mask", "operand masked with %#x" % consts[0])
            if op == "Rem" and consts and 0 < consts[0] <= (1 << to_bits):
                return ("mask", "operand reduced modulo %d" % consts[0])
            if op == "Shr" and consts:
                from_bits = BITS[db.types[s["from"]]]
                if from_bits - consts[0] <= to_bits:
                    return ("mask", "operand shifted right by %d" % consts[0])
    # guard: dominated by a switch on a comparison involving an alias of src with a failing edge that errors
    al = _aliases_backward(f, src, defs)
    dom = f.dominators().get(bi, set())
    for gb in dom:
        t = f.blocks[gb]["t"]
        if t["k"] != "switch":
            continue
        dl = op_local(t["d"])
        if dl is None:
            continue
        for cbi, csi, cs in defs.get(dl, []):
            if csi == -1 or cs["r"] != "binop" or cs["op"] not in ("Lt", "Le", "Gt", "Ge"):
                continue
            ops = [op_local(cs["a"]), op_local(cs["b"])]
            if not any(x in al for x in ops if x is not None):
                continue
            # one of the switch targets must not reach the cast block (i.e. it leaves)
            leaves = [tg for tg in t["t"] if bi not in f.reachable_from(tg)]
            if leaves:
                return ("guard", "dominated by a range comparison at line %d whose other edge leaves" % t["ln"])
    return None


SIZE_CALLS = re.compile(
    r"^(io::BinWrite::pos|io::BinRead::pos|alloc::vec::Vec::<T, A>::len|core::slice::<impl \[T\]>::len|"
    r"indexmap::map::IndexMap::<K, V, S>::len|indexmap::map::IndexMap::<K, V, S>::get_index_of|alloc::string::String::len|core::str::<impl str>::len|"
    r"core::iter::traits::iterator::Iterator::(count|position|sum)|io::Encoded::len|"
    r"std::collections::hash::map::HashMap::<K, V, S, A>::len|alloc::collections::btree::map::BTreeMap::<K, V, A>::len|"
    r"core::num::<impl u64>::(checked_sub|wrapping_sub)|core::num::<impl usize>::(checked_sub|wrapping_sub)|core::num::nonzero::NonZero::<T>::get|"
    r"core::option::Option::<T>::(unwrap_or|unwrap|expect|map)|core::result::Result::<T, E>::(unwrap|expect)|"
    r"core::ops::try_trait::Try::branch|llir::InstrFormat::instr_size|llir::InstrFormat::instr_header_size)$")


def provenance(db, f, local, defs, depth=0, seen=None):
    """classify where an integer value comes from: set of tags among
    size (stream position / in-memory length / index arithmetic), bool, enum, const, param, field, call:<f>, other"""
    seen = seen if seen is not None else set()
    if local in seen or depth > 12:
        return set()
    seen.add(local)
    tags = set()
    ds = defs.get(local, [])
    if not ds:
        if 1 <= local <= f.mir["argc"]:
            return {"param"}
        return {"other"}
    for bi, si, s in ds:
        if si == -1:
            c = s.get("f", "")
            if SIZE_CALLS.match(c):
                if c.startswith("core::option::") or c.startswith("core::result::") or c.startswith("core::ops::try_trait") or "checked_sub" in c or "wrapping_sub" in c or "NonZero" in c:
                    sub = set()
                    for a in s["a"]:
                        l = op_local(a)
                        if l is not None:
                            sub |= provenance(db, f, l, defs, depth + 1, seen)
                        elif "iv" in a or "c" in a:
                            sub.add("const")
                    tags |= (sub or {"other"})
                else:
                    tags.add("size")
            else:
                tags.add("call:" + c)
            continue
        r = s["r"]
        if r in ("use", "cast", "unop"):
            o = s["o"]
            if r == "cast":
                frm = db.types[s["from"]]
                if frm == "bool":
                    tags.add("bool")
                    continue
                if frm not in BITS and s["ck"] == "IntToInt":
                    tags.add("enum")     # enum discriminant cast
                    continue
            l = op_local(o)
            if l is not None:
                tags |= provenance(db, f, l, defs, depth + 1, seen)
            elif "iv" in o or "c" in o:
                tags.add("const")
            else:
                p = op_place(o)
                if p is not None:
                    # field read: through a Continue/Some downcast of a local -> follow the local
                    proj = place_proj(p)
                    if all((isinstance(e, list) and e[0] in ("d",)) or e == "*" or (isinstance(e, list) and e[0] == "f" and e[1] in ("0",)) for e in proj):
                        tags |= provenance(db, f, place_local(p), defs, depth + 1, seen)
                    else:
                        fld = [e for e in proj if isinstance(e, list) and e[0] == "f"]
                        tags.add("field:%s.%s" % (fld[-1][2], fld[-1][1]) if fld else "other")
        elif r == "binop":
            for k in ("a", "b"):
                o = s[k]
                l = op_local(o)
                if l is not None:
                    tags |= provenance(db, f, l, defs, depth + 1, seen)
                elif "iv" in o or "c" in o:
                    tags.add("const")
                else:
                    p = op_place(o)
                    proj = place_proj(p) if p is not None else []
                    if p is not None and all((isinstance(e, list) and e[0] == "f" and e[1] in ("0", "1")) or e == "*" for e in proj):
                        tags |= provenance(db, f, place_local(p), defs, depth + 1, seen)
                    else:
                        fld = [e for e in proj if isinstance(e, list) and e[0] == "f"]
                        tags.add("field:%s.%s" % (fld[-1][2], fld[-1][1]) if fld else "other")
        elif r == "discr":
            tags.add("enum")
        else:
            tags.add("other")
    return tags
