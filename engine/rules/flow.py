"""Small intra-procedural MIR dataflow helpers shared by the guard / pairing / def-use rules."""
from facts import op_local, op_place, place_local, place_proj

CMP_OPS = {"Lt", "Le", "Gt", "Ge", "Eq", "Ne"}
CMP_CALLS = {
    "core::cmp::PartialEq::eq": "Eq", "core::cmp::PartialEq::ne": "Ne",
    "core::cmp::PartialOrd::lt": "Lt", "core::cmp::PartialOrd::le": "Le",
    "core::cmp::PartialOrd::gt": "Gt", "core::cmp::PartialOrd::ge": "Ge",
}
TRANSPARENT_CALLS = (
    "core::ops::deref::Deref::deref", "core::ops::deref::DerefMut::deref_mut", "core::clone::Clone::clone",
    "core::convert::Into::into", "core::convert::From::from", "core::convert::AsRef::as_ref",
    "core::borrow::Borrow::borrow", "core::option::Option::<T>::as_ref", "core::option::Option::<T>::as_mut",
    "core::option::Option::<T>::unwrap", "core::option::Option::<T>::expect", "core::option::Option::<&T>::copied",
    "core::option::Option::<&T>::cloned", "core::result::Result::<T, E>::unwrap", "core::result::Result::<T, E>::expect",
    "core::ops::try_trait::Try::branch", "core::option::Option::<T>::unwrap_or", "core::option::Option::<T>::as_deref",
    "core::option::Option::<T>::ok_or_else", "core::option::Option::<T>::ok_or", "core::result::Result::<T, E>::map_err",
)


# value-preserving (checked) conversion helpers of the repository: callee -> index of the value argument
TRANSPARENT_ARG = {"llir::fit_field": 2, "core::convert::TryFrom::try_from": 0, "core::convert::TryInto::try_into": 0,
                   "core::result::Result::<T, E>::map_err": 0, "core::result::Result::<T, E>::ok": 0}


class Defs:
    """definition sites of bare locals in one MIR body"""

    def __init__(self, f):
        self.f = f
        self.stmts = {}
        self.calls = {}
        for bi, b in enumerate(f.blocks):
            for si, s in enumerate(b["s"]):
                l = place_local(s["d"])
                self.stmts.setdefault(l, []).append((bi, si, s, bool(place_proj(s["d"]))))
            t = b["t"]
            if t["k"] == "call":
                self.calls.setdefault(place_local(t["d"]), []).append((bi, t))

    def sources(self, local, depth=0, seen=None, through_calls=True):
        """set of origin descriptors of the value in `local`:
        ('call', callee, bb) ('const', text) ('param', index) ('field', owner, name) ('agg', adt) ('binop', op) ('other', x)"""
        if seen is None:
            seen = set()
        if local in seen or depth > 14:
            return set()
        seen.add(local)
        out = set()
        f = self.f
        found = False
        for bi, si, s, proj in self.stmts.get(local, []):
            if proj:
                continue
            found = True
            r = s["r"]
            if r in ("use", "cast", "unop", "repeat"):
                out |= self._op_sources(s["o"], depth, seen, through_calls)
            elif r in ("ref", "rawptr"):
                out |= self._place_sources(s["p"], depth, seen, through_calls)
            elif r == "discr":
                out |= {("discr",)} | self._place_sources(s["p"], depth, seen, through_calls)
            elif r == "binop":
                out.add(("binop", s["op"]))
                out |= self._op_sources(s["a"], depth, seen, through_calls)
                out |= self._op_sources(s["b"], depth, seen, through_calls)
            elif r == "agg":
                out.add(("agg", s.get("adt") or s.get("ak")))
                for o in s["ops"]:
                    out |= self._op_sources(o, depth, seen, through_calls)
            else:
                out.add(("other", r))
        for bi, t in self.calls.get(local, []):
            found = True
            c = t.get("fr") or t.get("f") or "<indirect>"
            cg = t.get("f") or c
            out.add(("call", cg, bi))
            if through_calls and (cg in TRANSPARENT_CALLS or c in TRANSPARENT_CALLS) and t["a"]:
                out |= self._op_sources(t["a"][0], depth, seen, through_calls)
            elif through_calls and cg in TRANSPARENT_ARG and len(t["a"]) > TRANSPARENT_ARG[cg]:
                out |= self._op_sources(t["a"][TRANSPARENT_ARG[cg]], depth, seen, through_calls)
        if not found:
            if 1 <= local <= f.mir["argc"]:
                out.add(("param", local))
            else:
                out.add(("other", "undef"))
        return out

    def _op_sources(self, o, depth, seen, tc):
        if not isinstance(o, dict):
            return set()
        if "c" in o or "fn" in o:
            return {("const", o.get("c") or o.get("fn"))}
        p = op_place(o)
        if p is None:
            return {("other", "op")}
        return self._place_sources(p, depth, seen, tc)

    def _place_sources(self, p, depth, seen, tc):
        out = set()
        proj = place_proj(p)
        flds = [e for e in proj if isinstance(e, list) and e[0] == "f"]
        for e in flds:
            out.add(("field", e[2], e[1]))
        out |= self.sources(place_local(p), depth + 1, seen, tc)
        return out


def has_call_source(srcs, suffix):
    return any(s[0] == "call" and (s[1] == suffix or s[1].endswith(suffix)) for s in srcs)


def has_field_source(srcs, owner_suffix, name):
    return any(s[0] == "field" and s[2] == name and (owner_suffix is None or s[1].endswith(owner_suffix)) for s in srcs)


def comparisons(f, defs=None):
    """yield dicts: {bb, ln, op, a:set(sources), b:set(sources), dest}"""
    defs = defs or Defs(f)
    for bi, b in enumerate(f.blocks):
        if b.get("cleanup"):
            continue
        for s in b["s"]:
            if s["r"] == "binop" and s["op"] in CMP_OPS:
                yield {"bb": bi, "ln": s["ln"], "op": s["op"], "dest": place_local(s["d"]),
                       "a": defs._op_sources(s["a"], 0, set(), True), "b": defs._op_sources(s["b"], 0, set(), True)}
        t = b["t"]
        if t["k"] == "call":
            c = t.get("f", "")
            if c in CMP_CALLS and len(t["a"]) >= 2:
                yield {"bb": bi, "ln": t["ln"], "op": CMP_CALLS[c], "dest": place_local(t["d"]),
                       "a": defs._op_sources(t["a"][0], 0, set(), True), "b": defs._op_sources(t["a"][1], 0, set(), True)}


def switch_on(f, local, defs=None, depth=0):
    """blocks whose SwitchInt discriminant derives from `local` (through copies / Not / && chains)"""
    out = []
    work = [local]
    seen = set()
    while work:
        l = work.pop()
        if l in seen:
            continue
        seen.add(l)
        for bi, b in enumerate(f.blocks):
            for s in b["s"]:
                if s["r"] in ("use", "unop", "cast") and op_local(s.get("o", {})) == l and not place_proj(s["d"]):
                    work.append(place_local(s["d"]))
            t = b["t"]
            if t["k"] == "switch" and op_local(t["d"]) == l:
                out.append(bi)
    return out


def switch_on_pol(f, local):
    """like switch_on, with polarity: [(bb, negated)] where negated counts `Not` operations on the way"""
    out = []
    work = [(local, False)]
    seen = set()
    while work:
        l, neg = work.pop()
        if (l, neg) in seen:
            continue
        seen.add((l, neg))
        for bi, b in enumerate(f.blocks):
            for s in b["s"]:
                if s["r"] in ("use", "unop", "cast") and op_local(s.get("o", {})) == l and not place_proj(s["d"]):
                    if s["r"] == "unop" and s.get("op") not in ("Not",):
                        continue
                    work.append((place_local(s["d"]), neg ^ (s["r"] == "unop")))
            t = b["t"]
            if t["k"] == "switch" and op_local(t["d"]) == l:
                out.append((bi, neg))
    return out


def accepted_when(f, c, accept_bb, header=None):
    """for a comparison dict from `comparisons`: the set of truth values of the comparison with which control can
    still reach accept_bb (through a branch on it that dominates accept_bb)"""
    dom = f.dominators().get(accept_bb, set())
    avoid = {header} if header is not None else set()
    vals = None
    for sb, neg in switch_on_pol(f, c["dest"]):
        if sb not in dom or sb == accept_bb:
            continue
        t = f.blocks[sb]["t"]
        here = set()
        for i, tg in enumerate(t["t"]):
            reach = tg == accept_bb or accept_bb in f.reachable_from(tg, avoid=avoid)
            if not reach:
                continue
            if i < len(t["v"]):
                raw = bool(t["v"][i])
            else:
                raw = not bool(t["v"][0]) if len(t["v"]) == 1 else None
            if raw is None:
                continue
            here.add(raw ^ neg)
        vals = here if vals is None else (vals & here)
    return vals


def const_of(srcs):
    """integer value of a ('const', '1_u32')-only source set, else None"""
    cs = [x for x in srcs if x[0] == "const"]
    if len(cs) != 1 or len(srcs) != 1:
        return None
    import re as _re
    m = _re.match(r"^(-?\d+)", str(cs[0][1]))
    return int(m.group(1)) if m else None


def calls_to(f, suffix):
    """[(bb, term)] of calls whose generic or resolved callee ends with suffix"""
    out = []
    for bi, t in f.calls():
        for c in (t.get("f"), t.get("fr")):
            if c and (c == suffix or c.endswith(suffix)):
                out.append((bi, t))
                break
    return out


def reaches(f, src_bb, dst_bb, avoid=()):
    return dst_bb in f.reachable_from(src_bb, avoid=set(avoid))


def return_blocks(f):
    return [i for i, b in enumerate(f.blocks) if b["t"]["k"] == "ret"]


def canon_place(f, place, defs=None, depth=0):
    """resolve a place to ('param', k, projection-tuple) / ('local', l, proj) by following copies, refs,
    derefs and tuple/ADT aggregates field-sensitively.  projection entries: '*' | ('f', name) | ('d', variant)"""
    defs = defs or Defs(f)
    l = place_local(place)
    proj = []
    for e in place_proj(place):
        if e == "*":
            proj.append("*")
        elif isinstance(e, list) and e[0] == "f":
            proj.append(("f", e[1]))
        elif isinstance(e, list) and e[0] == "d":
            proj.append(("d", e[1]))
        else:
            proj.append(("?", str(e)))
    return _canon(f, defs, l, proj, depth)


def _canon(f, defs, l, proj, depth):
    if depth > 20:
        return ("local", l, tuple(proj))
    ds = [(bi, si, s) for bi, si, s, pj in defs.stmts.get(l, []) if not pj]
    calls = defs.calls.get(l, [])
    if len(ds) + len(calls) != 1:
        if not ds and not calls and 1 <= l <= f.mir["argc"]:
            return ("param", l, tuple(_simplify(proj)))
        return ("local", l, tuple(_simplify(proj)))
    if calls:
        bi, t = calls[0]
        c = t.get("f", "")
        if c in TRANSPARENT_CALLS and t["a"]:
            p = op_place(t["a"][0])
            if p is not None:
                extra = ["*"] if c.startswith("core::ops::deref::") else []
                return canon_place_proj(f, defs, p, proj if not extra else proj, depth + 1)
        return ("call", c, tuple(_simplify(proj)))
    bi, si, s = ds[0]
    r = s["r"]
    if r in ("use",):
        p = op_place(s["o"])
        if p is None:
            return ("const", s["o"].get("c"), tuple(proj))
        return canon_place_proj(f, defs, p, proj, depth + 1)
    if r == "ref":
        # &P followed by a deref cancels
        return canon_place_proj(f, defs, s["p"], ["&"] + proj, depth + 1)
    if r == "agg" and proj:
        # pick the operand selected by the first field projection
        first = proj[0]
        rest = proj[1:]
        if first[0] == "f":
            names = s.get("fn")
            idx = None
            if s.get("ak") == "tuple" and first[1].isdigit():
                idx = int(first[1])
            elif names and first[1] in names:
                idx = names.index(first[1])
            elif first[1].isdigit():
                idx = int(first[1])
            if idx is not None and idx < len(s["ops"]):
                p = op_place(s["ops"][idx])
                if p is None:
                    return ("const", s["ops"][idx].get("c"), tuple(rest))
                return canon_place_proj(f, defs, p, rest, depth + 1)
    return ("local", l, tuple(_simplify(proj)))


def canon_place_proj(f, defs, place, proj, depth):
    l = place_local(place)
    pre = []
    for e in place_proj(place):
        if e == "*":
            pre.append("*")
        elif isinstance(e, list) and e[0] == "f":
            pre.append(("f", e[1]))
        elif isinstance(e, list) and e[0] == "d":
            pre.append(("d", e[1]))
        else:
            pre.append(("?", str(e)))
    return _canon(f, defs, l, pre + proj, depth)


def _simplify(proj):
    out = []
    for e in proj:
        if e == "*" and out and out[-1] == "&":
            out.pop()
        else:
            out.append(e)
    return [e for e in out if e != "&"]


def reach_avoiding_edges(f, start, removed):
    """blocks reachable from start over normal edges, not using edges in `removed` (set of (src, dst))"""
    succ = f.succ()
    seen = set()
    st = [start]
    while st:
        b = st.pop()
        if b in seen:
            continue
        seen.add(b)
        for s in succ[b]:
            if (b, s) not in removed and s not in seen:
                st.append(s)
    return seen


def error_exit_blocks(f):
    """blocks that belong to an error exit: the `?` residual conversion, or an explicit `_0 = Err(..)`"""
    out = set()
    for bi, b in enumerate(f.blocks):
        t = b["t"]
        if t["k"] == "call" and (t.get("f") or "").endswith("FromResidual::from_residual"):
            out.add(bi)
        for s in b["s"]:
            if s["r"] == "agg" and s.get("adt") == "core::result::Result::Err" and place_local(s["d"]) == 0 and not place_proj(s["d"]):
                out.add(bi)
    return out


def must_pass(f, callee_suffixes, extra_ok_blocks=()):
    """True iff every path from entry to a normal (non-error) return passes a call to one of the callees.
    Returns (ok, offending_return_block)"""
    targets = set()
    for bi, t in f.calls():
        for c in (t.get("f"), t.get("fr")):
            if c and any(c == s or c.endswith(s) for s in callee_suffixes):
                targets.add(bi)
    avoid = error_exit_blocks(f) | targets | set(extra_ok_blocks)
    # diverging blocks (panics) are not returns
    reach = f.reachable_from(0, avoid=avoid)
    for bi in reach:
        if f.blocks[bi]["t"]["k"] == "ret":
            return False, bi
    return bool(targets), None


def guards_before(f, accept_bb, defs=None, header=None):
    """comparisons (from `comparisons`) whose branch dominates accept_bb and one of whose edges cannot reach it
    (within the loop iteration if header is given).  Returns list of comparison dicts (with 'switch' added)."""
    defs = defs or Defs(f)
    dom = f.dominators().get(accept_bb, set())
    out = []
    avoid = {header} if header is not None else set()
    for c in comparisons(f, defs):
        for sb in switch_on(f, c["dest"], defs):
            if sb not in dom or sb == accept_bb:
                continue
            targets = f.blocks[sb]["t"]["t"]
            blocked = [t for t in targets if accept_bb not in f.reachable_from(t, avoid=avoid) and t != accept_bb]
            if blocked:
                cc = dict(c)
                cc["switch"] = sb
                out.append(cc)
    return out


def bool_call_guards(f, accept_bb, callee_suffix, defs=None, header=None, dominate=True):
    """calls to a bool-returning function whose result branches before accept_bb with one edge not reaching it.
    dominate=False also admits guards evaluated only under another condition (`a && guard`): the branch must
    still be able to reach the accept on one edge and not on the other"""
    defs = defs or Defs(f)
    dom = f.dominators().get(accept_bb, set())
    avoid = {header} if header is not None else set()
    out = []
    for bi, t in calls_to(f, callee_suffix):
        for sb in switch_on(f, place_local(t["d"]), defs):
            if not dominate and sb != accept_bb and accept_bb in f.reachable_from(sb, avoid=avoid):
                targets = f.blocks[sb]["t"]["t"]
                if any(accept_bb not in f.reachable_from(tg, avoid=avoid) and tg != accept_bb for tg in targets):
                    out.append((bi, t))
                continue
            if sb in dom and sb != accept_bb:
                targets = f.blocks[sb]["t"]["t"]
                if any(accept_bb not in f.reachable_from(tg, avoid=avoid) and tg != accept_bb for tg in targets):
                    out.append((bi, t))
    return out


def innermost_header(f, bb):
    """the innermost natural-loop header (a block with a back edge: some predecessor is dominated by it) that
    dominates bb and is reachable again from bb; None if bb is not inside a loop"""
    dom = f.dominators()
    pred = f.pred()
    hs = []
    for hb in dom.get(bb, ()):
        if any(hb in dom.get(p, ()) for p in pred[hb]) and hb in f.reachable_from(bb) and hb != bb:
            hs.append(hb)
    return max(hs, key=lambda h: len(dom.get(h, ()))) if hs else None


def upvar_origin(db, cl, field_index):
    """for a closure body `cl`, the operand in the parent function that initialises captured field N.
    returns (parent_fn, operand) or (None, None)"""
    parent = db.fns.get(_lexical_parent(db, cl))
    if parent is None:
        return None, None
    for b in parent.blocks:
        for s in b["s"]:
            if s["r"] == "agg" and s.get("ak") == "closure" and s.get("adt") == cl.id:
                if field_index < len(s["ops"]):
                    return parent, s["ops"][field_index]
    return parent, None


def _lexical_parent(db, cl):
    """the function whose body creates the closure (closure ids are `<parent>::{closure#N}`)"""
    i = cl.id.rfind("::{closure#")
    return cl.id[:i] if i > 0 else None


def trace_to_origin(db, f, place, depth=0):
    """follow a place through closure captures up to the function that owns the storage.
    returns (fn, canon) where canon is canon_place in that fn"""
    d = Defs(f)
    cp = canon_place(f, place, d)
    if f.closure and cp[0] == "param" and cp[1] == 1 and depth < 6:
        proj = list(cp[2])
        while proj and proj[0] == "*":      # `&mut closure` / `&closure` environments
            proj.pop(0)
        if proj and proj[0][0] == "f":
            try:
                n = int(proj[0][1])
            except ValueError:
                return f, cp
            parent, o = upvar_origin(db, f, n)
            if parent is not None and o is not None:
                p = op_place(o)
                if p is not None:
                    pf, pc = trace_to_origin(db, parent, p, depth + 1)
                    rest = tuple(_simplify(list(pc[2]) + ["&"] + proj[1:])) if False else tuple(e for e in (list(pc[2]) + proj[1:]) if e != "*")
                    return pf, (pc[0], pc[1], rest)
    return f, (cp[0], cp[1], tuple(e for e in cp[2] if e != "*"))


def natural_loop_body(f, header):
    """blocks of the natural loop of `header` (union over its back edges), header included"""
    dom = f.dominators()
    pred = f.pred()
    back = [p for p in pred[header] if header in dom.get(p, ())]
    body = {header}
    st = list(back)
    while st:
        x = st.pop()
        if x in body:
            continue
        body.add(x)
        st.extend(pred[x])
    return body, back


def every_iteration_passes(f, header, through):
    """True iff every path from the loop header around the loop back to the header passes a block in `through`"""
    body, back = natural_loop_body(f, header)
    succ = f.succ()
    seen = set()
    st = [s for s in succ[header] if s in body and s not in through]
    while st:
        x = st.pop()
        if x in seen:
            continue
        seen.add(x)
        if x in back:
            return False
        for s in succ[x]:
            if s in body and s not in through and s != header and s not in seen:
                st.append(s)
    return True


# --------------------------------------------------------------------------
# boolean implication analysis: "local B can be true only if call C returned false"
# --------------------------------------------------------------------------

def implies_not_call(f, call_suffix, defs=None):
    """Returns (safe, why): safe = set of bool locals L with the invariant  L == true  =>  some call to
    `call_suffix` (evaluated earlier in the same loop iteration / function) returned false.
    A local is safe if EVERY definition of it is one of: const false; Not(result of the call); a copy of a safe
    local; BitAnd with a safe local; or an arbitrary value defined in a block that is reachable only through the
    false edge of a branch on the call's result, or only through the true edge of a branch on a safe local."""
    defs = defs or Defs(f)
    results = set()
    for bi, t in calls_to(f, call_suffix):
        l = place_local(t["d"])
        if l is not None:
            results.add(l)

    def copies_of(srcs):
        out = set(srcs)
        ch = True
        while ch:
            ch = False
            for b in f.blocks:
                for s in b["s"]:
                    if s["r"] == "use" and not place_proj(s["d"]) and op_local(s["o"]) in out and isinstance(s["d"], int) and s["d"] not in out:
                        # only single-definition temporaries
                        if len(defs.stmts.get(s["d"], [])) + len(defs.calls.get(s["d"], [])) == 1:
                            out.add(s["d"])
                            ch = True
        return out
    res_all = copies_of(results)

    def edge_guarded_blocks(switch_locals, keep_true):
        """blocks reachable only through the (true if keep_true else false) edge of a switch on one of switch_locals"""
        guarded = set()
        for sb, b in enumerate(f.blocks):
            t = b["t"]
            if t["k"] != "switch" or op_local(t["d"]) not in switch_locals or t.get("v") != [0] or len(t["t"]) != 2:
                continue
            f_edge, t_edge = t["t"][0], t["t"][1]
            want, other = (t_edge, f_edge) if keep_true else (f_edge, t_edge)
            hdr = innermost_header(f, sb)
            avoid = {hdr} if hdr is not None else set()
            via_other = f.reachable_from(other, avoid=avoid) | {other}
            via_want = f.reachable_from(want, avoid=avoid) | {want}
            guarded |= (via_want - via_other)
        return guarded

    not_guard = edge_guarded_blocks(res_all, keep_true=False)
    safe = set()
    changed = True
    n_bool = [l for l in range(len(f.mir["locals"])) if f.local_ty(l) == "bool"]
    while changed:
        changed = False
        true_guard = edge_guarded_blocks(copies_of(safe), keep_true=True) if safe else set()
        for l in n_bool:
            if l in safe or l in res_all:
                continue
            ds = defs.stmts.get(l, [])
            cs = defs.calls.get(l, [])
            if not ds and not cs:
                continue
            ok = True
            for bi, si, s, pj in ds:
                if pj:
                    ok = False
                    break
                if bi in not_guard or bi in true_guard:
                    continue
                if s["r"] == "use":
                    o = s["o"]
                    if "c" in o or "iv" in o:
                        if o.get("iv") == 0 or str(o.get("c")) in ("false", "0"):
                            continue
                        ok = False
                        break
                    if op_local(o) in safe:
                        continue
                    ok = False
                    break
                if s["r"] == "unop" and s.get("op") == "Not" and op_local(s["o"]) in res_all:
                    continue
                if s["r"] == "binop" and s.get("op") == "BitAnd" and (op_local(s["a"]) in safe or op_local(s["b"]) in safe):
                    continue
                ok = False
                break
            for bi, t in cs:
                if bi in not_guard or bi in true_guard:
                    continue
                ok = False
            if ok:
                safe.add(l)
                changed = True
    return safe, res_all


def deep_sources(f, defs, operand, limit=400):
    """backward data provenance of an operand THROUGH calls: the union of the sources of the operand and,
    for every call among them, of that call's arguments (transitively).  Control dependence is not included:
    a value that only decides a branch is not a source."""
    out = set()
    seen_calls = set()
    work = [operand]
    n = 0
    while work and n < limit:
        n += 1
        o = work.pop()
        srcs = defs._op_sources(o, 0, set(), True)
        for s in srcs:
            out.add(s)
            if s[0] == "call" and isinstance(s[2], int) and s[2] not in seen_calls:
                seen_calls.add(s[2])
                t = f.blocks[s[2]]["t"]
                for a in t.get("a", []):
                    work.append(a)
    return out
