"""R-ARMS: tables read from HIR `match` arms (patterns -> abstract results)."""
from facts import hir_walk, hir_children
from rules.visit import variant_alternatives, find_matches, _strip


def first_match(fn, db, enum_path=None, nth=0):
    k = 0
    for n in hir_walk(fn.hir):
        if n.get("k") == "Match" and n.get("src") == "Normal":
            if enum_path is not None:
                t = db.types[n["st"]].replace("&mut ", "").replace("&", "").strip()
                if not (t == enum_path or t.startswith(enum_path + "<")):
                    continue
            if k == nth:
                return n
            k += 1
    return None


def unwrap_block(b):
    """strip `{ expr }` blocks without statements"""
    while isinstance(b, dict) and b.get("k") == "Block" and not b.get("ss") and "e" in b:
        b = b["e"]
    return b


def abstract(body):
    """abstract result of an arm body:
    ('never',) | ('ctor', path, inner-abstract...) | ('path', path) | ('call', f) | ('lit', v) | ('other', kind)"""
    b = unwrap_block(body)
    if not isinstance(b, dict):
        return ("other", "?")
    if b.get("never"):
        if b.get("k") == "Call":
            return ("never", b.get("f"))
        return ("never", b.get("k"))
    k = b.get("k")
    if k == "Call":
        if b.get("rk", "").startswith("Ctor"):
            inner = tuple(abstract(a) for a in b["a"])
            return ("ctor", b["f"]) + inner
        return ("call", b.get("f"))
    if k == "MCall":
        return ("call", b.get("f"))
    if k == "Path":
        return ("path", b["p"])
    if k == "Lit":
        return ("lit", b["v"])
    if k == "Struct":
        return ("ctor", b["p"])
    if k == "Tup" and not b.get("es"):
        return ("unit",)
    if k == "Match":
        return ("match",)
    return ("other", k)


def simple_table(match_node):
    """[(set(variant paths or '_'), arm)] for a match on an enum"""
    out = []
    for arm in match_node["arms"]:
        vs = [v for v, _ in variant_alternatives(arm["p"])]
        out.append((vs, arm))
    return out


def tuple_variants(pat):
    """for a Tuple pattern of enum-variant patterns: list of variant paths per position ('_' for wildcard)"""
    p = _strip(pat)
    if p["k"] != "Tuple":
        return None
    out = []
    for q in p["ps"]:
        alts = variant_alternatives(q)
        out.append([v for v, _ in alts])
    return out


def adt_variants(db, path):
    a = db.adts.get(path)
    if a is None:
        raise Exception("unknown enum " + path)
    return [path + "::" + v["n"] for v in a["variants"]]


def calls_in(node):
    out = []
    for n in hir_walk(node):
        if n.get("k") in ("Call", "MCall") and n.get("f"):
            out.append(n["f"])
    return out


def pat_sig(p, drop=()):
    """canonical text of the *constraints* of a pattern (bindings and wildcards dropped);
    returns a list of alternatives (or-patterns are flattened at the top level)"""
    p = _strip(p)
    k = p["k"]
    if k == "Or":
        out = []
        for q in p["ps"]:
            out.extend(pat_sig(q, drop))
        return out
    return [_sig1(p, drop)]


def _sig1(p, drop):
    p = _strip(p)
    k = p["k"]
    if k in ("Wild", "Bind", "Missing"):
        if k == "Bind" and "sub" in p:
            return _sig1(p["sub"], drop)
        return None
    if k == "Lit":
        return ("-" if p.get("neg") else "") + p["v"]
    if k == "Path":
        return p["p"]
    if k == "Struct":
        cons = []
        for name, q in p["fs"]:
            if name in drop:
                continue
            s = _sig1(q, drop)
            if s is not None:
                cons.append("%s: %s" % (name, s))
        return p["p"] + ("{" + ", ".join(sorted(cons)) + "}" if cons else "")
    if k == "TS":
        cons = []
        for i, q in enumerate(p["ps"]):
            s = _sig1(q, drop)
            if s is not None:
                cons.append("%d: %s" % (i, s))
        return p["p"] + ("(" + ", ".join(cons) + ")" if cons else "")
    if k == "Tuple":
        return "(" + ", ".join(str(_sig1(q, drop)) for q in p["ps"]) + ")"
    if k == "Or":
        return "|".join(sorted(str(_sig1(q, drop)) for q in p["ps"]))
    if k == "Range":
        return "range"
    return "?" + k


PANIC_FNS = ("core::panicking::panic", "core::panicking::panic_fmt", "core::panicking::unreachable_display", "core::panicking::panic_display",
             "core::panicking::panic_explicit", "std::rt::begin_panic", "core::panicking::assert_failed", "core::option::expect_failed",
             "core::panicking::panic_str_2015", "std::rt::panic_fmt", "core::panicking::unreachable")


def tail_expr(n):
    """the expression in tail position of a block-like node"""
    while isinstance(n, dict):
        k = n.get("k")
        if k == "Block" or (k is None and "ss" in n):
            if "e" in n:
                n = n["e"]
                continue
            ss = n.get("ss") or []
            if not ss:
                return n
            last = ss[-1]
            n = last.get("e") or last.get("i")
            continue
        return n
    return n


def panics_at_tail(body):
    """the arm body's control flow ends in a panic (panic!/unreachable!/unimplemented!/todo!/direct panicking call)"""
    t = tail_expr(body)
    if not isinstance(t, dict) or not t.get("never"):
        return None
    if t.get("k") in ("Ret", "Continue", "Break"):
        return None
    if t.get("k") in ("Call", "MCall"):
        f = t.get("f") or ""
        if f in PANIC_FNS or f.startswith("core::panicking::"):
            return (t.get("x") or f).split(">")[-1]
        return "call:" + f     # a user function returning `!`
    if t.get("k") == "Match" or t.get("k") == "If":
        return None
    x = t.get("x") or ""
    if any(w in x for w in ("panic", "unreachable", "unimplemented", "todo")):
        return x.split(">")[-1]
    return None


def resolve_token(db, node):
    """`token![-]` / `token![%]` expand to `Into::into(quote::MinusSign)`: resolve through the crate's own From impl
    for the expected type; returns the variant path or None"""
    b = unwrap_block(node)
    if not isinstance(b, dict):
        return None
    if b.get("k") == "Path":
        return b["p"]
    if b.get("k") == "Call" and (b.get("f") or "").endswith("convert::Into::into") and b.get("a"):
        a = unwrap_block(b["a"][0])
        if a.get("k") == "Path" and a["p"].startswith("quote::"):
            ty = db.types[b["ty"]]
            fid = "quote::<impl core::convert::From<%s> for %s>::from" % (a["p"], ty)
            f = db.fns.get(fid)
            if f is not None:
                t = tail_expr(f.hir)
                if isinstance(t, dict) and t.get("k") == "Path":
                    return t["p"]
    return None
