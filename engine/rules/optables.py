"""Finite operator tables of the type checker and the constant evaluator, read from HIR match arms."""
from facts import hir_walk, MissingAnchor
from rules import arms
from rules.visit import variant_alternatives

BINOP = "ast::BinOpKind"
UNOP = "ast::UnOpKind"
OPCLASS = "ast::OpClass"
STY = "value::ScalarType"
SVAL = "value::ScalarValue"

F_BIN_CLASS = "ast::BinOpKind::class"
F_BIN_CHECK = "passes::type_check::ExprTypeChecker::<'_, '_>::binop_check"
F_UN_CHECK = "passes::type_check::ExprTypeChecker::<'_, '_>::unop_check"
F_BIN_TY = "passes::type_check::<impl ast::Expr>::_binop_ty"
F_UN_TY = "passes::type_check::<impl ast::Expr>::_unop_ty"
F_BIN_EVAL = "passes::const_simplify::<impl ast::BinOpKind>::const_eval_defined"
F_BIN_EVAL_OUTER = "passes::const_simplify::<impl ast::BinOpKind>::const_eval"
F_UN_EVAL = "passes::const_simplify::<impl ast::UnOpKind>::const_eval"
REQ = "passes::type_check::ExprTypeChecker::<'_, '_>::require_"
F_REQ_EXACT = "passes::type_check::ExprTypeChecker::<'_, '_>::_require_exact"
F_REQ_EXACT_EXPR = "passes::type_check::ExprTypeChecker::<'_, '_>::_require_exact_expr"


def short(p):
    return p.rsplit("::", 1)[-1]


class Tables:
    pass


def variant_map(db, fn_id, enum_path, nth=0):
    """variant -> arm for the nth match on enum_path in fn (wildcards expanded to remaining variants)"""
    f = db.fn(fn_id)
    m = arms.first_match(f, db, enum_path, nth)
    if m is None:
        raise MissingAnchor("match on %s in %s" % (enum_path, fn_id))
    return expand(db, m, enum_path), f


def expand(db, m, enum_path):
    allv = arms.adt_variants(db, enum_path)
    res = {}
    for vs, arm in arms.simple_table(m):
        for v in vs:
            if v == "_":
                for w in allv:
                    res.setdefault(w, arm)
            elif v in allv:
                res.setdefault(v, arm)
    return res


def require_accepts(db, req_fn):
    """set of ScalarType variants (short names) for which the require_* helper returns Ok"""
    f = db.fn(req_fn)
    m = arms.first_match(f, db, STY)
    if m is not None:
        acc = set()
        tab = expand(db, m, STY)
        for v, arm in tab.items():
            a = arms.abstract(arm["b"])
            if a[0] == "ctor" and a[1] == "core::result::Result::Ok":
                acc.add(short(v))
        return acc
    # body: self._require_exact(ty, ScalarType::X, ..)
    for n in hir_walk(f.hir):
        if n.get("k") == "MCall" and n.get("f") == F_REQ_EXACT:
            for a in n["a"]:
                if a.get("k") == "Path" and a.get("p", "").startswith(STY + "::"):
                    return {short(a["p"])}
    raise MissingAnchor("cannot interpret " + req_fn)


def exact_is_equality(db):
    """_require_exact forwards (ty, expected) unchanged to _require_exact_expr, which is Ok iff `ty == expected`"""
    f = db.fn(F_REQ_EXACT_EXPR)
    params = [p.get("n") for p in f.d["hparams"]]
    ok = False
    for n in hir_walk(f.hir):
        if n.get("k") == "If":
            c = n["c"]
            if c.get("k") == "Binary" and c["op"] == "==":
                l, r = c["l"], c["r"]
                if l.get("k") == "Path" and r.get("k") == "Path" and {l["p"], r["p"]} == {params[1], params[2]}:
                    t = arms.abstract(n["t"])
                    ok = t[0] == "ctor" and t[1] == "core::result::Result::Ok"
    g = db.fn(F_REQ_EXACT)
    gp = [p.get("n") for p in g.d["hparams"]]
    fw = False
    for n in hir_walk(g.hir):
        if n.get("k") == "MCall" and n.get("f") == F_REQ_EXACT_EXPR:
            names = []
            for a in n["a"][:2]:
                nm = [x["p"] for x in hir_walk(a) if x.get("k") == "Path" and x.get("rk") == "Local"]
                names.append(nm[0] if nm else None)
            fw = names == [gp[1], gp[2]]
    return ok and fw


def _req_of(body):
    """the requirement an arm imposes: the require_* callee if every branch of the arm calls the same one, 'accept-all' if
    some branch (of a nested match / if) imposes none or the branches differ, ('never',) if the arm diverges"""
    from facts import hir_walk as _hw
    b = arms.unwrap_block(body) if hasattr(arms, "unwrap_block") else body
    while isinstance(b, dict) and b.get("k") == "Match" and (b.get("src") or "").startswith("TryDesugar"):
        b = b["s"]["a"][0] if b["s"].get("k") == "Call" and b["s"].get("a") else b["s"]
    if isinstance(b, dict) and b.get("k") == "Match" and b.get("src") == "Normal":
        subs = [_req_of(a["b"]) for a in b["arms"]]
        subs = [x for x in subs if x != ("never",)]
        if not subs:
            return ("never",)
        return subs[0] if all(x == subs[0] for x in subs) else "accept-all"
    if isinstance(b, dict) and b.get("k") == "If":
        subs = [_req_of(b["t"]), _req_of(b["el"]) if "el" in b else "accept-all"]
        subs = [x for x in subs if x != ("never",)]
        return subs[0] if subs and all(x == subs[0] for x in subs) else "accept-all"
    calls = [c for c in arms.calls_in(body) if c.startswith(REQ)]
    return calls[0] if calls else (("never",) if body.get("never") else "accept-all")


def build(db):
    T = Tables()
    T.binops = arms.adt_variants(db, BINOP)
    T.unops = arms.adt_variants(db, UNOP)
    T.stys = [short(v) for v in arms.adt_variants(db, STY)]
    T.accepts = {}
    # ---- class()
    tab, f = variant_map(db, F_BIN_CLASS, BINOP)
    T.bin_class = {}
    for v, arm in tab.items():
        a = arms.abstract(arm["b"])
        T.bin_class[v] = a[1] if a[0] in ("path", "ctor") else None
    # ---- binop_check: class -> require fn
    f = db.fn(F_BIN_CHECK)
    m = arms.first_match(f, db, OPCLASS)
    if m is None:
        raise MissingAnchor("match on OpClass in binop_check")
    tab = expand(db, m, OPCLASS)
    T.bin_check = {}
    for v, arm in tab.items():
        T.bin_check[v] = _req_of(arm["b"])
    T.bin_check_same = any(c == REQ + "same" for c in arms.calls_in(f.hir))
    # ---- unop_check: op -> require fn
    T.un_check = {}
    fuc = db.fn(F_UN_CHECK)
    if arms.first_match(fuc, db, UNOP) is not None:
        tab, f = variant_map(db, F_UN_CHECK, UNOP)
        for v, arm in tab.items():
            calls = [c for c in arms.calls_in(arm["b"]) if c.startswith(REQ)]
            T.un_check[v] = calls[0] if calls else (("never",) if arm["b"].get("never") else "accept-all")
    else:
        # dispatch on op.class(): compose with UnOpKind::class
        m = arms.first_match(fuc, db, OPCLASS)
        if m is None:
            raise MissingAnchor("unop_check matches neither on UnOpKind nor on OpClass")
        ctab = expand(db, m, OPCLASS)
        utab, _ = variant_map(db, "ast::UnOpKind::class", UNOP)
        for v, arm in utab.items():
            a = arms.abstract(arm["b"])
            cls = a[1] if a[0] in ("path", "ctor") else None
            carm = ctab.get(cls)
            if carm is None:
                T.un_check[v] = None
                continue
            calls = [c for c in arms.calls_in(carm["b"]) if c.startswith(REQ)]
            T.un_check[v] = calls[0] if calls else (("never",) if carm["b"].get("never") else "accept-all")
    # ---- require_* acceptance
    for r in set(x for x in list(T.bin_check.values()) + list(T.un_check.values()) if isinstance(x, str)):
        T.accepts[r] = set(T.stys) if r == "accept-all" else require_accepts(db, r)
    T.exact_eq = exact_is_equality(db)
    # ---- _binop_ty: class -> 'arg' | ScalarType
    f = db.fn(F_BIN_TY)
    m = arms.first_match(f, db, OPCLASS)
    tab = expand(db, m, OPCLASS)
    T.bin_ty = {}
    for v, arm in tab.items():
        T.bin_ty[v] = _ty_result(arm["b"])
    tab, f = variant_map(db, F_UN_TY, UNOP)
    T.un_ty = {v: _ty_result(arm["b"]) for v, arm in tab.items()}
    # ---- const_eval (binary): (op, ty) -> abstract
    f = None
    for cand in (F_BIN_EVAL, F_BIN_EVAL_OUTER):
        if cand in db.fns:
            mm = arms.first_match(db.fns[cand], db, None)
            if mm is not None and db.types[mm["st"]].startswith("(" + SVAL):
                f = db.fns[cand]
                break
    if f is None:
        raise MissingAnchor("BinOpKind::const_eval operator table")
    T.f_bin_eval = f
    outer = arms.first_match(f, db, None)
    T.bin_eval = {}
    T.bin_eval_arm = {}
    T.bin_eval_mixed_never = False
    for arm in outer["arms"]:
        tv = arms.tuple_variants(arm["p"])
        if tv is None:
            vs = [v for v, _ in variant_alternatives(arm["p"])]
            if vs == ["_"]:
                T.bin_eval_mixed_never = bool(arm["b"].get("never")) or arms.abstract(arm["b"])[0] == "never"
            continue
        if len(tv) == 2 and tv[0] == tv[1] and len(tv[0]) == 1 and tv[0][0].startswith(SVAL + "::"):
            ty = short(tv[0][0])
            inner = arms.unwrap_block(arm["b"])
            if inner.get("k") != "Match":
                continue
            itab = expand(db, inner, BINOP)
            for op, a2 in itab.items():
                T.bin_eval[(op, ty)] = arms.abstract(a2["b"])
                T.bin_eval_arm[(op, ty)] = a2
    # ---- const_eval (unary)
    f = db.fn(F_UN_EVAL)
    outer = arms.first_match(f, db, SVAL)
    T.un_eval = {}
    T.un_eval_arm = {}
    otab = expand(db, outer, SVAL)
    for tyv, arm in otab.items():
        ty = short(tyv)
        inner = arms.unwrap_block(arm["b"])
        if inner.get("k") == "Match":
            itab = expand(db, inner, UNOP)
            for op, a2 in itab.items():
                T.un_eval[(op, ty)] = arms.abstract(a2["b"])
                T.un_eval_arm[(op, ty)] = a2
        else:
            a = arms.abstract(arm["b"])
            for op in T.unops:
                T.un_eval[(op, ty)] = a
                T.un_eval_arm[(op, ty)] = arm
    return T


def _ty_result(body):
    a = arms.abstract(body)
    if a[0] in ("path", "ctor") and a[1].startswith(STY + "::"):
        return short(a[1])
    if a[0] == "call" or a[0] == "other":
        return "arg"
    if a[0] == "never":
        return "never"
    return "arg"


def eval_result_ty(a):
    """ScalarType short name produced by a const_eval arm abstract, 'never', or 'nonconst' (None)"""
    if a[0] == "never":
        return "never"
    if a[0] == "ctor":
        if a[1] == "core::option::Option::Some" and len(a) > 2:
            return eval_result_ty(a[2])
        if a[1].startswith(SVAL + "::"):
            return short(a[1])
    if a[0] == "path" and a[1] == "core::option::Option::None":
        return "nonconst"
    return "?"
