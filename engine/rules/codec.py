"""R-CODEC: reader / writer sibling agreement on the on-disk type of each field.

For every `impl InstrFormat` the I/O primitive that reads a RawInstr field (found by def-use from the
`RawInstr { .. }` aggregate back to an io::BinRead call) is compared with the primitive that writes it
(found from the io::BinWrite call's operand back to the RawInstr field, or to instr_size()/len() for the
size field).  Widths must be equal.  Signedness must be equal too, unless the reader stores the value
with a same-width cast only (bit-preserving, e.g. read_i16 -> `as u16`); a reader that *widens* a
value (sign- or zero-extension) must use the writer's signedness, otherwise values with the top bit set
do not read back as written.
"""
import re
from facts import op_local, op_place, place_local, place_proj
from rules import flow

RPRIM = re.compile(r"^io::BinRead::read_(i8|u8|i16|u16|i32|u32|f32)(_or_eof)?$")
WPRIM = re.compile(r"^io::BinWrite::write_(i8|u8|i16|u16|i32|u32|f32)$")
BITS = {"i8": 8, "u8": 8, "i16": 16, "u16": 16, "i32": 32, "u32": 32, "f32": 32, "usize": 64, "u64": 64, "i64": 64, "isize": 64}


def instr_formats(db):
    out = []
    for im in db.impls:
        if im["trait"] == "llir::InstrFormat":
            r = w = h = None
            for it in im["items"]:
                if it["n"] == "read_instr":
                    r = db.fns.get(it["id"])
                if it["n"] == "write_instr":
                    w = db.fns.get(it["id"])
                if it["n"] == "instr_header_size":
                    h = db.fns.get(it["id"])
            if r and w and not im["self"].startswith("llir::Test") and "SimpleInstrReader" not in im["self"]:
                out.append((im["self"], r, w, h))
    return out


def _read_chain(db, f, d, local, depth=0, seen=None):
    """follow a value backwards to the read primitive(s) it comes from.
    returns list of (prim, casts) where casts = list of (from_ty, to_ty) applied after the read"""
    seen = seen if seen is not None else set()
    if local in seen or depth > 12:
        return []
    seen.add(local)
    out = []
    for bi, t in d.calls.get(local, []):
        c = t.get("f", "")
        m = RPRIM.match(c)
        if m:
            out.append((m.group(1), []))
        elif c in flow.TRANSPARENT_CALLS or c.startswith("core::convert::") or c.endswith("::from") or c.endswith("::into"):
            for a in t["a"][:1]:
                l = op_local(a)
                if l is not None:
                    frm = f.local_ty(l)
                    to = f.local_ty(local)
                    # checked conversions return Result<T, _> / Option<T>: the widening is to T
                    mm = re.match(r"^core::(?:result::Result|option::Option)<(\w+)[,>]", to or "")
                    if mm:
                        to = mm.group(1)
                    for p, cs in _read_chain(db, f, d, l, depth + 1, seen):
                        extra = [(frm, to)] if frm in BITS and to in BITS and frm != to else []
                        out.append((p, cs + extra))
    for bi, si, s, pj in d.stmts.get(local, []):
        if pj:
            continue
        if s["r"] == "use":
            p = op_place(s["o"])
            if p is not None:
                out += _read_chain(db, f, d, place_local(p), depth + 1, seen)
        elif s["r"] == "cast":
            l = op_local(s["o"])
            if l is not None:
                for p, cs in _read_chain(db, f, d, l, depth + 1, seen):
                    out.append((p, cs + [(db.types[s["from"]], db.types[s["to"]])]))
        elif s["r"] == "agg" and s.get("adt", "").startswith("core::option::Option::Some"):
            for o in s["ops"]:
                l = op_local(o)
                if l is not None:
                    out += _read_chain(db, f, d, l, depth + 1, seen)
    return out


def reader_fields(db, f):
    """RawInstr field name -> list of (prim, casts); plus '<size>' for the value feeding read_byte_vec"""
    d = flow.Defs(f)
    res = {}
    for b in f.blocks:
        for s in b["s"]:
            if s["r"] == "agg" and s.get("adt") == "llir::RawInstr":
                for name, o in zip(s.get("fn", []), s["ops"]):
                    l = op_local(o)
                    if l is None:
                        continue
                    ch = _read_chain(db, f, d, l)
                    if ch:
                        res.setdefault(name, [])
                        for c in ch:
                            if c not in res[name]:
                                res[name].append(c)
    for bi, t in f.calls():
        if t.get("f") == "io::BinRead::read_byte_vec" and len(t["a"]) > 1:
            l = op_local(t["a"][1])
            if l is not None:
                ch = _size_chain(db, f, d, l)
                if ch:
                    res["<size>"] = ch
    return res


def _size_chain(db, f, d, local, depth=0, seen=None):
    """like _read_chain but also through checked_sub / Sub / `?`"""
    seen = seen if seen is not None else set()
    if local in seen or depth > 14:
        return []
    seen.add(local)
    out = _read_chain(db, f, d, local, 0, set())
    if out:
        return out
    for bi, t in d.calls.get(local, []):
        for a in t["a"][:1]:
            l = op_local(a)
            if l is not None:
                out += _size_chain(db, f, d, l, depth + 1, seen)
            else:
                p = op_place(a)
                if p is not None:
                    out += _size_chain(db, f, d, place_local(p), depth + 1, seen)
    for bi, si, s, pj in d.stmts.get(local, []):
        if pj:
            continue
        for k in ("o", "a"):
            if k in s and isinstance(s[k], dict):
                p = op_place(s[k])
                if p is not None:
                    out += _size_chain(db, f, d, place_local(p), depth + 1, seen)
        if s["r"] == "cast":
            l = op_local(s["o"])
            if l is not None:
                for p_, cs in _size_chain(db, f, d, l, depth + 1, seen):
                    pass
    return out


def writer_fields(db, f):
    """RawInstr field name / '<size>' -> list of write prims"""
    d = flow.Defs(f)
    res = {}
    for bi, t in f.calls():
        m = WPRIM.match(t.get("f", ""))
        if not m or len(t["a"]) < 2:
            continue
        o = t["a"][1]
        if "c" in o:
            continue
        l = op_local(o)
        srcs = d.sources(l) if l is not None else d._op_sources(o, 0, set(), True)
        names = set(s[2] for s in srcs if s[0] == "field" and s[1] == "llir::RawInstr")
        if any(s[0] == "call" and (s[1].endswith("::instr_size") or s[1].endswith("::len")) for s in srcs):
            names = {"<size>"}
        if "args_blob" in names:
            names = {"<size>"}
        for n in names:
            res.setdefault(n, [])
            if m.group(1) not in res[n]:
                res[n].append(m.group(1))
    return res


def compare(prim_r, casts, prim_w):
    """None if compatible, else a reason"""
    if BITS[prim_r] != BITS[prim_w]:
        return "reader reads %d bits (read_%s) but writer writes %d bits (write_%s)" % (BITS[prim_r], prim_r, BITS[prim_w], prim_w)
    if prim_r == prim_w:
        return None
    if prim_r[0] == prim_w[0]:
        return None
    # signedness differs: fine only if the reader never widens the raw value
    widened = False
    cur_bits = BITS[prim_r]
    for frm, to in casts:
        if frm in BITS and to in BITS and BITS[to] > BITS[frm]:
            # widening from the reader's signedness
            widened = True
    if widened:
        return ("reader widens read_%s (sign/zero-extension follows the reader's type) but the writer stores it with write_%s: "
                "values with the top bit set do not read back as written" % (prim_r, prim_w))
    return None


# ---------------------------------------------------------------------------------------------------------------
# R-FILE-CODEC: scalar prefix agreement of sibling reader / writer functions of file structures (symbolic paths)

FILE_PAIRS = [
    ("formats::ecl::ecl_06::read_olde_ecl", "formats::ecl::ecl_06::write_olde_ecl"),
    ("formats::msg::read_msg", "formats::msg::write_msg"),
    ("formats::std::read_std", "formats::std::write_std"),
    ("formats::std::read_object", "formats::std::write_object"),
    ("formats::std::read_quad", "formats::std::write_quad"),
    ("formats::std::read_instance", "formats::std::write_instance"),
    ("formats::mission::read_mission_msg", "formats::mission::write_mission_msg"),
    ("formats::anm::read_write::read_sprite", "formats::anm::read_write::write_sprite"),
    ("formats::anm::read_write::read_texture", "formats::anm::read_write::write_texture"),
]
_IO = re.compile(r"^io::Bin(Read|Write)::(read|write|expect)_|^io::Bin(Reader|Writer)(::<[^>]*>)?::(read|write|expect)_|write_instrs$|read_instrs$")
_W = {"u8": 1, "i8": 1, "u16": 2, "i16": 2, "u32": 4, "i32": 4, "f32": 4}


def _io_prefixes(db, fid):
    """set of scalar-width prefixes (tuples of byte widths; 'f*' = one or more f32) of the non-error paths, cut at the first
    loop / vector / blob / nested-structure I/O"""
    from rules import symeval as SY
    out = set()
    for conds, events, fl, st in SY.fn_paths(db, fid, effect_re=_IO):
        if fl:
            continue
        seq = []
        for e in events:
            if e[0] == "loop":
                break
            if e[0] != "effect":
                continue
            nm = e[1]
            m = re.match(r"^(read|write)_(u8|i8|u16|i16|u32|i32|f32)$", nm)
            if m:
                seq.append(_W[m.group(2)])
                continue
            m = re.match(r"^read_f32s_(\d)$", nm)
            if m:
                seq.extend([4] * int(m.group(1)))
                continue
            if nm == "write_f32s":
                seq.append("f*")
                continue
            if nm == "expect_magic":
                seq.append("magic")
                continue
            if nm == "write_all" and not seq:
                seq.append("magic")
                continue
            break
        out.add(tuple(seq))
    return out


def _compatible(r, w):
    """reader prefix r and writer prefix w describe the same leading fields (the shorter one is a prefix of the other;
    a writer 'f*' stands for one or more 4-byte floats; a 4-byte magic matches 'magic' or 4)"""
    i = j = 0
    while i < len(r) and j < len(w):
        a, b = r[i], w[j]
        if b == "f*":
            if a != 4:
                return False
            while i < len(r) and r[i] == 4:
                i += 1
            j += 1
            continue
        if a == "magic" or b == "magic":
            if {a, b} <= {"magic", 4}:
                i += 1
                j += 1
                continue
            return False
        if a != b:
            return False
        i += 1
        j += 1
    return True


def file_codec(db, rep, rule="R-FILE-CODEC"):
    n = 0
    for rid, wid in FILE_PAIRS:
        r, w = db.fn(rid), db.fn(wid)
        rep.fn(r)
        rep.fn(w)
        rp, wp = _io_prefixes(db, rid), _io_prefixes(db, wid)
        n += 1
        bad = [x for x in sorted(wp, key=str) if not any(_compatible(y, x) for y in rp)]
        badr = [y for y in sorted(rp, key=str) if not any(_compatible(y, x) for x in wp)]
        name = wid.rsplit("::", 1)[-1].replace("write_", "")
        rep.check(not bad and not badr and bool(rp) and bool(wp), rule, "%s|leading fields" % name, w.loc,
                  "reader %s / writer %s agree on the widths of the leading fields" % (sorted(rp, key=str)[:3], sorted(wp, key=str)[:3]),
                  "%s writes leading fields of widths %s but %s reads %s: a value is read back from other bytes than it was written to" % (
                      wid.rsplit("::", 1)[-1], bad or sorted(wp, key=str), rid.rsplit("::", 1)[-1], badr or sorted(rp, key=str)))
    rep.floor("reader/writer pairs of file structures", n, 9)
