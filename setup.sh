#!/bin/bash
# Build the fact extractor and warm the dependency cache (offline).  Run once after a fresh restore.
set -e
cd "$(dirname "$0")"
export CARGO_NET_OFFLINE=true
(cd engine/driver && cargo build --offline 2>&1 | tail -2)
python3 - <<'PY'
import sys
sys.path.insert(0, "engine")
import facts
p, cached = facts.ensure_facts("/repo")
print("facts:", p, "(cached)" if cached else "(extracted)")
PY
