#!/bin/bash
# confirms every seeded regression whose meta.json has no confirmation yet (N parallel jobs), merging confirm.json into meta.json
J="${1:-3}"
cd "$(dirname "$0")/.."
pending=$(python3 - <<'PY'
import json,glob
for f in sorted(glob.glob('seeded/C*/meta.json')):
    m=json.load(open(f))
    if not m.get('confirmation'): print(m['seed'])
PY
)
one() {
  s="$1"; p="${s%-*}"; n="${s#*-}"
  tools/confirm_seed.sh "$p" "$n" "$PWD/seeded/$s" >/dev/null 2>&1
  python3 - "$s" <<'PY'
import json,sys,os
s=sys.argv[1]; d='seeded/'+s
c=json.load(open(d+'/confirm.json'))
c['ran']='tools/confirm_seed.sh in a scratch worktree of /repo HEAD: demonstration on the clean tree; git apply; cargo build --offline; tools/baseline.sh (492 pinned tests); demonstration with the patch'
m=json.load(open(d+'/meta.json')); m['confirmation']=c
json.dump(m,open(d+'/meta.json','w'),indent=1); os.remove(d+'/confirm.json')
print(s, 'confirmed' if c['confirmed'] else 'NOT-CONFIRMED', c)
PY
}
export -f one
echo "$pending" | xargs -P "$J" -I{} bash -c 'one {}'
