#!/usr/bin/env python3
"""generates MANIFEST.json from the table below (single source of truth)"""
import json, os
HERE = os.path.dirname(os.path.dirname(os.path.abspath(__file__)))
CHECKS = json.load(open(os.path.join(HERE, "tools", "manifest_checks.json")))
props = [json.loads(l)["id"] for l in open(os.path.join(HERE, "properties.jsonl"))]
checks = []
na = []
for p in props:
    c = CHECKS.get(p)
    if c is None or c.get("na"):
        na.append({"property_id": p, "reason": (c or {}).get("na", "no check built yet")})
        continue
    checks.append({
        "property_id": p,
        "quick_cmd": "./check %s --tier quick" % p,
        "thorough_cmd": "./check %s --tier thorough" % p,
        "evidence_file": "evidence/%s.json" % p,
        "replay_cmd_template": "./check %s --replay {path}" % p,
        "engine": "truth-facts",
        "level_claimed": {"category": "other", "text": c["text"], "design_ref": c.get("ref", "DESIGN.md §4 " + p)},
        "level_note": c["note"],
        "technique": c["technique"],
    })
m = {
    "version": 1,
    "setup_cmd": "./setup.sh",
    "hooks": {
        "guard": "truth_verif",
        "enable": "none needed: static analysis reads the type-checked program through a rustc_private driver (RUSTC_WORKSPACE_WRAPPER); /repo contains no instrumentation",
        "baseline_off_cmd": "./tools/baseline.sh /repo",
        "source_commits": [],
        "add_only": True,
    },
    "engines": [{
        "name": "truth-facts",
        "path": "engine/",
        "serves_properties": [c["property_id"] for c in checks],
        "kind_free_text": "static analysis: rustc_private driver dumps HIR+MIR facts of the truth lib (incl. the LALRPOP-generated parser actions); python rule modules (dataflow, dominance, match-arm tables, call graph, who-may-call) decide each property's structural clauses",
    }],
    "checks": checks,
    "not_applicable": na,
    "notes": "Technique family: static analysis only. Every check re-extracts facts from /repo's current working tree when any build input changed (hash of src/, build/, map/, Cargo.*). exit 0 = rules hold, 1 = VIOLATION lines, 2 = cannot decide (missing anchor / extraction failed). Genuine defects found are in known_findings.json (fixed ones as 'fixed: ...').",
}
json.dump(m, open(os.path.join(HERE, "MANIFEST.json"), "w"), indent=1)
print("claimed:", [c["property_id"] for c in checks]); print("n/a:", [n["property_id"] for n in na])
