#!/bin/bash
# usage: seedtest.sh <patch.diff> <PROP> [<PROP>...]   -- applies the patch to a scratch copy of /repo's HEAD, runs the checks on it, removes the copy
set -u
PATCH="$(readlink -f "$1")"; shift
D=$(mktemp -d /tmp/seedwt.XXXXXX)
rmdir "$D"
git -C /repo worktree add -q --detach "$D" HEAD || exit 2
if ! git -C "$D" apply "$PATCH" 2>/dev/null; then
  if ! git -C "$D" apply -3 "$PATCH" 2>/dev/null; then echo "PATCH-DOES-NOT-APPLY $PATCH"; git -C /repo worktree remove --force "$D"; exit 3; fi
fi
RC=0
for P in "$@"; do
  /verif/check "$P" --repo "$D" 2>&1 | grep -E "^(VIOLATION|  rule|C[0-9]+:|CHECK-BROKEN|KNOWN)" | cut -c1-400
  [ "${PIPESTATUS[0]}" -ne 0 ] && RC=1
done
git -C /repo worktree remove --force "$D"
exit $RC
