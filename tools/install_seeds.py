#!/usr/bin/env python3
"""install_seeds.py <srcroot> [number offset] [PROP,PROP..]   (srcroot/<PROP>/<N>/{patch.diff,meta.json,demo*,inputs})

Copies sub-agent mutants into /verif/seeded/<PROP>-<N>/, re-basing each patch onto /repo's HEAD
(3-way apply in a scratch worktree, then `git diff`) so that `git apply` works on the current tree.
Existing detected_by / confirmation fields of an installed seed are preserved.
"""
import json
import os
import shutil
import subprocess
import sys
import tempfile

VERIF = os.path.dirname(os.path.dirname(os.path.abspath(__file__)))
src = sys.argv[1]
offset = int(sys.argv[2]) if len(sys.argv) > 2 else 0
only = sys.argv[3].split(",") if len(sys.argv) > 3 else None


def sh(*a, **k):
    return subprocess.run(a, stdout=subprocess.PIPE, stderr=subprocess.STDOUT, text=True, **k)


for prop in sorted(os.listdir(src)):
    if not os.path.isdir(os.path.join(src, prop)):
        continue
    for n in sorted(os.listdir(os.path.join(src, prop))):
        d = os.path.join(src, prop, n)
        if not os.path.isfile(os.path.join(d, "patch.diff")):
            continue
        if not n.isdigit() or (only and prop not in only):
            continue
        sid = "%s-%d" % (prop, int(n) + offset)
        dst = os.path.join(VERIF, "seeded", sid)
        wt = tempfile.mkdtemp(prefix="seedinst.")
        os.rmdir(wt)
        r = sh("git", "-C", "/repo", "worktree", "add", "-q", "--detach", wt, "HEAD")
        try:
            mode = "clean"
            r = sh("git", "apply", os.path.join(d, "patch.diff"), cwd=wt)
            if r.returncode != 0:
                r = sh("git", "apply", "-3", os.path.join(d, "patch.diff"), cwd=wt)
                mode = "3way"
                if r.returncode != 0:
                    print(sid, "DOES NOT APPLY", r.stdout[-300:])
                    continue
            if "<<<<<<<" in sh("git", "diff", cwd=wt).stdout:
                print(sid, "CONFLICT")
                continue
            sh("git", "reset", "-q", cwd=wt)
            diff = sh("git", "diff", cwd=wt).stdout
            os.makedirs(dst, exist_ok=True)
            open(os.path.join(dst, "patch.diff"), "w").write(diff)
            for f in os.listdir(d):
                if f in ("patch.diff", "meta.json", "confirm.json"):
                    continue
                if os.path.isdir(os.path.join(d, f)):
                    shutil.copytree(os.path.join(d, f), os.path.join(dst, f), dirs_exist_ok=True)
                else:
                    shutil.copy2(os.path.join(d, f), os.path.join(dst, f))
            m = json.load(open(os.path.join(d, "meta.json")))
            old = {}
            if os.path.exists(os.path.join(dst, "meta.json")):
                old = json.load(open(os.path.join(dst, "meta.json")))
            meta = {
                "seed": sid,
                "property": prop,
                "breaks": m.get("breaks") or m.get("summary"),
                "needs_to_manifest": m.get("needs_to_manifest"),
                "why_existing_tests_pass": m.get("why_existing_tests_pass") or m.get("why_tests_pass"),
                "files_changed": m.get("files_changed"),
                "demonstration": sorted(f for f in os.listdir(dst) if f.startswith("demo")),
                "author": "fresh sub-agent given only the property record and a scratch worktree",
                "author_commands": m.get("author_commands") or m.get("commands_run"),
                "rebased": mode,
                "detected_by": old.get("detected_by", []),
                "detail": old.get("detail", {}),
                "confirmation": old.get("confirmation"),
            }
            if os.path.exists(os.path.join(d, "confirm.json")):
                meta["confirmation"] = json.load(open(os.path.join(d, "confirm.json")))
                meta["confirmation"]["ran"] = ("tools/confirm_seed.sh in a scratch worktree of /repo HEAD: demonstration on the clean tree; "
                                               "git apply; cargo build --offline; tools/baseline.sh (492 pinned tests); demonstration with the patch")
            json.dump(meta, open(os.path.join(dst, "meta.json"), "w"), indent=1)
            print(sid, mode, len(diff))
        finally:
            sh("git", "-C", "/repo", "worktree", "remove", "--force", wt)
