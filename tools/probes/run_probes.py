#!/usr/bin/env python3
"""run_probes.py <probes.json> [name-substring]: developer aid.  Applies each textual probe mutation (own, unconfirmed,
not part of any registered check) to a scratch copy of /repo and reports which of the listed checks flag it."""
import importlib, json, os, shutil, sys
VERIF = os.path.dirname(os.path.dirname(os.path.dirname(os.path.abspath(__file__))))
sys.path.insert(0, os.path.join(VERIF, "engine"))
sys.dont_write_bytecode = True
import facts, common, seeds
os.environ["VERIF_SCRATCH_RUN"] = "1"
probes = json.load(open(sys.argv[1]))
sel = sys.argv[2] if len(sys.argv) > 2 else ""
for pr in probes:
    if sel and sel not in pr["name"]:
        continue
    base, dst = seeds.scratch_copy("/repo")
    try:
        p = os.path.join(dst, pr["file"])
        s = open(p).read()
        if pr["old"] not in s:
            print(pr["name"], "OLD-TEXT-NOT-FOUND"); continue
        s = s.replace(pr["old"], pr["new"], 1)
        open(p, "w").write(s)
        try:
            path, _ = facts.ensure_facts(dst, quiet=True)
        except SystemExit:
            print(pr["name"], "DOES-NOT-BUILD"); continue
        db = facts.DB(path); db.repo = dst
        res = []
        for prop in pr["props"]:
            mod = importlib.import_module("props." + prop.lower())
            try:
                rep = mod.run(db, "quick")
                bad = [i for i in rep.instances if not i["ok"]]
                res.append("%s:%s" % (prop, ("DETECTED[" + ",".join(sorted(set(b["rule"] for b in bad))) + "]") if bad else "missed"))
            except facts.MissingAnchor as e:
                res.append("%s:CANNOT-DECIDE(%s)" % (prop, str(e)[:60]))
            except common.Broken as e:
                res.append("%s:CANNOT-DECIDE(%s)" % (prop, str(e)[:60]))
            except Exception as e:
                res.append("%s:CRASH(%s)" % (prop, repr(e)[:80]))
        print(pr["name"], " ".join(res), flush=True)
    finally:
        shutil.rmtree(base, ignore_errors=True)
