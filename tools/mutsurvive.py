#!/usr/bin/env python3
"""mutsurvive.py <mutsweep.jsonl> [--workers N] [--out FILE] [--all]
Developer aid, stage 2 of the mutation sweep: for mutants the checks MISSED, find out whether the repository's own
492 baseline tests notice them.  A missed mutant that the tests also miss is a candidate gap (or an equivalent mutant)
and is worth reading; one that the tests catch is outside the task (a change must pass the tests to count)."""
import json, os, re, sys, subprocess, multiprocessing, shutil
VERIF = os.path.dirname(os.path.dirname(os.path.abspath(__file__)))
BOUNDARY = re.compile(r"<=|>=| < | > |\+ [01]\b|- [01]\b|&&|\|\||\.rev\(\)|Some\([01]\)|min\(|max\(")


def sh(*a, **k):
    return subprocess.run(a, stdout=subprocess.PIPE, stderr=subprocess.STDOUT, text=True, **k)


def work(args):
    mut, _ = args
    ident = multiprocessing.current_process()._identity
    wid = ident[0] if ident else 0
    wt = "/tmp/mutsurv-wt%d" % wid
    if not os.path.isdir(wt):
        sh("git", "-C", "/repo", "worktree", "add", "-q", "--detach", wt, "HEAD")
    sh("git", "checkout", "--", ".", cwd=wt)
    sh("git", "clean", "-fdq", "--", "tests/", cwd=wt)
    p = os.path.join(wt, mut["file"])
    lines = open(p).read().split("\n")
    if lines[mut["line"] - 1].strip() != mut["old"]:
        mut["survives"] = "stale"
        return mut
    indent = lines[mut["line"] - 1][:len(lines[mut["line"] - 1]) - len(lines[mut["line"] - 1].lstrip())]
    lines[mut["line"] - 1] = indent + mut["new"]
    open(p, "w").write("\n".join(lines))
    r = sh(os.path.join(VERIF, "tools", "baseline.sh"), wt, env=dict(os.environ, CARGO_BUILD_JOBS="5"))
    out = r.stdout
    if "BASELINE-OK" in out:
        mut["survives"] = True
    elif "BASELINE-BROKEN" in out:
        mut["survives"] = False
        m = re.search(r"BASELINE-BROKEN: (\d+)", out)
        mut["broken_tests"] = int(m.group(1)) if m else None
    else:
        mut["survives"] = "error"
        mut["log"] = out[-300:]
    sh("git", "checkout", "--", ".", cwd=wt)
    return mut


def main():
    src = sys.argv[1]
    workers = int(sys.argv[sys.argv.index("--workers") + 1]) if "--workers" in sys.argv else 3
    out = sys.argv[sys.argv.index("--out") + 1] if "--out" in sys.argv else "mutsurvive.jsonl"
    only = sys.argv[sys.argv.index("--props") + 1].split(",") if "--props" in sys.argv else None
    todo = []
    seen = set()
    for l in open(src):
        r = json.loads(l)
        if r.get("status") != "missed":
            continue
        if only and r["prop"] not in only:
            continue
        key = (r["file"], r["line"], r["new"])
        if key in seen:
            continue
        seen.add(key)
        if "--all" in sys.argv or (BOUNDARY.search(r["old"]) and _changed_boundary(r["old"], r["new"])):
            todo.append(r)
    print("to test:", len(todo), flush=True)
    with open(out, "a") as fo:
        with multiprocessing.Pool(workers) as pool:
            for res in pool.imap_unordered(work, [(m, 0) for m in todo], chunksize=1):
                fo.write(json.dumps(res) + "\n")
                fo.flush()
                print(res.get("survives"), res["prop"], res["file"], res["line"], res["new"][:90], flush=True)
    for w in range(1, workers + 2):
        wt = "/tmp/mutsurv-wt%d" % w
        if os.path.isdir(wt):
            sh("git", "-C", "/repo", "worktree", "remove", "--force", wt)


def _changed_boundary(old, new):
    # the mutation itself is a boundary / connective change (not an ==/!= flip or a dropped negation)
    import difflib
    sm = difflib.SequenceMatcher(None, old, new)
    for tag, i1, i2, j1, j2 in sm.get_opcodes():
        if tag != "equal":
            frag = old[max(0, i1 - 2):i2 + 2] + " " + new[max(0, j1 - 2):j2 + 2]
            if re.search(r"[<>]=?|&&|\|\||[+-] [01]|rev|Some|min|max", frag) and not re.search(r"[!=]=", old[max(0, i1 - 1):i2 + 1]):
                return True
    return False


if __name__ == "__main__":
    main()
