#!/bin/bash
# usage: confirm_seed.sh <PROP> <N> <srcdir>   (srcdir contains patch.diff + demo_test.rs | demo.sh + meta.json)
# Confirms in a scratch worktree of /repo HEAD: demo passes on the clean tree; patch applies and builds;
# the 492 baseline tests still pass; demo fails with the patch.  Writes <srcdir>/confirm.json
set -u
P="$1"; N="$2"; SRC="$3"
export CARGO_NET_OFFLINE=true RUST_BACKTRACE=0
WT=$(mktemp -d /tmp/confirm.XXXXXX); rmdir "$WT"
git -C /repo worktree add -q --detach "$WT" HEAD || exit 2
cd "$WT"
lc=$(echo "$P" | tr 'A-Z' 'a-z')
run_demo() {
  if [ -f "$SRC/demo_test.rs" ]; then
    cp "$SRC/demo_test.rs" "tests/demo_${lc}_${N}.rs"
    cargo test --offline --test "demo_${lc}_${N}" >"$WT/demo.log" 2>&1; rc=$?
    rm -f "tests/demo_${lc}_${N}.rs"
    return $rc
  else
    cargo build --offline >/dev/null 2>&1
    (cd "$SRC" && bash ./demo.sh "$WT") >"$WT/demo.log" 2>&1; return $?
  fi
}
run_demo; CLEAN_RC=$?
APPLY=ok
if ! git apply "$SRC/patch.diff" 2>/dev/null; then
  if git apply -3 "$SRC/patch.diff" 2>/dev/null; then APPLY=3way; else APPLY=fail; fi
fi
BUILD=skip; BASE=skip; MUT_RC=-1
if [ "$APPLY" != fail ]; then
  if cargo build --offline >/dev/null 2>&1; then BUILD=ok; else BUILD=fail; fi
  if [ "$BUILD" = ok ]; then
    /verif/tools/baseline.sh "$WT" > "$WT/base.log" 2>&1 && BASE=ok || BASE=fail
    run_demo; MUT_RC=$?
  fi
fi
python3 - "$SRC/confirm.json" <<PY
import json,sys
json.dump({"property":"$P","n":$N,"repo_head":"$(git -C /repo rev-parse --short HEAD)","demo_on_clean_tree_rc":$CLEAN_RC,"patch_applies":"$APPLY","builds":"$BUILD","baseline_492":"$BASE","demo_with_patch_rc":$MUT_RC,
 "confirmed": ($CLEAN_RC==0 and "$APPLY"!="fail" and "$BUILD"=="ok" and "$BASE"=="ok" and $MUT_RC not in (0,-1))}, open(sys.argv[1],'w'), indent=1)
PY
cd /; git -C /repo worktree remove --force "$WT"
cat "$SRC/confirm.json" | tr '\n' ' '; echo
