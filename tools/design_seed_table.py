#!/usr/bin/env python3
"""rewrites the region between SEED-TABLE-BEGIN/END in DESIGN.md from seeded/*/meta.json (detected_by, detail, confirmation)"""
import json, os, re, glob
HERE = os.path.dirname(os.path.dirname(os.path.abspath(__file__)))
rows = ["| seed | change (as described by its author) | confirmed | detected by (rule) |", "|---|---|---|---|"]
def key(p):
    m = re.match(r".*/(C\d+)-(\d+)/meta.json", p)
    return (m.group(1), int(m.group(2)))
for f in sorted(glob.glob(os.path.join(HERE, "seeded", "C*", "meta.json")), key=key):
    m = json.load(open(f))
    txt = re.sub(r"\s+", " ", m.get("breaks", "")).replace("|", "/")
    txt = txt[:170] + ("…" if len(txt) > 170 else "")
    det = m.get("detail") or {}
    cells = []
    own = m["property"]
    for p in sorted(m.get("detected_by") or [], key=lambda p: (p != own, p)):
        rules = sorted(set(x.split(" at ")[0] for x in det.get(p, [])))
        cells.append("%s%s %s" % ("**" if p == own else "", p + ("**" if p == own else ""), ", ".join(rules)))
    c = m.get("confirmation") or {}
    conf = "yes" if c.get("confirmed") else ("pending" if not c else "NO")
    rows.append("| %s | %s | %s | %s |" % (m["seed"], txt, conf, "; ".join(cells) or "**none**"))
p = os.path.join(HERE, "DESIGN.md")
s = open(p).read()
a = s.index("<!-- SEED-TABLE-BEGIN -->") + len("<!-- SEED-TABLE-BEGIN -->")
b = s.index("<!-- SEED-TABLE-END -->")
s = s[:a] + "\n" + "\n".join(rows) + "\n" + s[b:]
open(p, "w").write(s)
print(len(rows) - 2, "seeds")
