#!/bin/bash
# Runs the repository's pinned test suite (guard off; no verification cfg is ever set) on /repo (or $1)
# and compares against /root/.vp/BASELINE.json: every baseline-passing test must still pass.
set -u
REPO="${1:-/repo}"
cd "$REPO" || exit 2
export CARGO_NET_OFFLINE=true
rm -f target/nextest/pb/junit.xml
LOG=$(mktemp)
if command -v cargo-nextest >/dev/null && [ -f /w/lib/nextest.toml ]; then
  cargo nextest run --workspace --no-fail-fast --tool-config-file pb:/w/lib/nextest.toml --profile pb --test-threads 8 --offline >"$LOG" 2>&1
fi
# insta leaves *.snap.new next to the snapshots of the tests that fail on the pinned tree too: never leave them behind
find tests -name "*.snap.new" -delete 2>/dev/null
J=target/nextest/pb/junit.xml
if [ ! -f "$J" ]; then echo "no junit output"; tail -40 "$LOG"; rm -f "$LOG"; exit 2; fi
rm -f "$LOG"
python3 - "$J" <<'PY'
import sys, json, xml.etree.ElementTree as ET
root = ET.parse(sys.argv[1]).getroot()
passed=set(); failed=set()
for tc in root.iter("testcase"):
    tid=(tc.get("classname") or "")+"::"+(tc.get("name") or "")
    if tc.find("failure") is not None or tc.find("error") is not None or tc.find("flakyFailure") is not None or tc.find("rerunFailure") is not None: failed.add(tid)
    elif tc.find("skipped") is not None: pass
    else: passed.add(tid)
stable=json.load(open('/root/.vp/BASELINE.json'))['stable_pass']
missing=[t for t in stable if t not in passed]
if missing:
    print("BASELINE-BROKEN: %d of %d baseline tests no longer pass:" % (len(missing), len(stable)))
    for m in missing: print("   ", m)
    sys.exit(1)
print("BASELINE-OK (%d/%d baseline tests pass; %d non-baseline tests fail)" % (len(stable), len(stable), len(failed)))
PY
