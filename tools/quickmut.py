#!/usr/bin/env python3
"""quickmut.py <PROP[,PROP..]> <file relative to repo> <old text> <new text> [count]
Developer aid: textual one-off mutation on a scratch copy of /repo, run the given checks, report detection.
(Not part of any registered check.)"""
import os
import sys

VERIF = os.path.dirname(os.path.dirname(os.path.abspath(__file__)))
sys.path.insert(0, os.path.join(VERIF, "engine"))
sys.dont_write_bytecode = True
import importlib
import shutil
import facts
import common
import seeds

props = sys.argv[1].split(",")
rel, old, new = sys.argv[2:5]
base, dst = seeds.scratch_copy("/repo")
os.environ["VERIF_SCRATCH_RUN"] = "1"
try:
    p = os.path.join(dst, rel)
    s = open(p).read()
    if old not in s:
        print("OLD TEXT NOT FOUND")
        sys.exit(3)
    s = s.replace(old, new, int(sys.argv[5]) if len(sys.argv) > 5 else 1)
    open(p, "w").write(s)
    try:
        path, _ = facts.ensure_facts(dst, quiet=True)
    except SystemExit:
        print("DOES NOT BUILD")
        sys.exit(4)
    db = facts.DB(path)
    db.repo = dst
    for prop in props:
        mod = importlib.import_module("props." + prop.lower())
        try:
            rep = mod.run(db, "quick")
            bad = [i for i in rep.instances if not i["ok"]]
            print(prop, "DETECTED" if bad else "missed", len(bad))
            for b in bad[:3]:
                print("   ", b["rule"], b["loc"], b["detail"][:220])
        except facts.MissingAnchor as e:
            print(prop, "CANNOT-DECIDE anchor", e)
        except common.Broken as e:
            print(prop, "CANNOT-DECIDE", e)
finally:
    shutil.rmtree(base, ignore_errors=True)
