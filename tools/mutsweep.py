#!/usr/bin/env python3
"""mutsweep.py <PROP[,PROP..]> [--workers N] [--max M] [--out FILE]
Developer aid (not a registered check): mutation sweep of the checkers.  For every property, small syntactic mutants
(operator flips, off-by-one, dropped negation, swapped literals) are generated inside the line ranges that the
property's own record names as its mechanism (properties.jsonl anchors.mechanism[].where), each is applied to a scratch
copy of /repo, facts are re-extracted and the property's check is run on it.  Output: one JSON line per mutant
(detected / missed / does-not-build).  Missed mutants are candidates for review (equivalent mutant, test-visible change,
or a gap in the rules)."""
import json, os, re, sys, shutil, subprocess, multiprocessing, importlib, time, hashlib
VERIF = os.path.dirname(os.path.dirname(os.path.abspath(__file__)))
sys.path.insert(0, os.path.join(VERIF, "engine"))
sys.dont_write_bytecode = True

OPS = [
    (r"==", "!="), (r"!=", "=="), (r"<=", "<"), (r">=", ">"), (r" < ", " <= "), (r" > ", " >= "),
    (r"&&", "||"), (r"\|\|", "&&"), (r"\+ 1\b", "+ 0"), (r"- 1\b", "- 0"), (r"\btrue\b", "false"), (r"\bfalse\b", "true"),
    (r"(?<![A-Za-z0-9_])!(?=[a-zA-Z_(])", ""), (r"\.is_some\(\)", ".is_none()"), (r"\.is_none\(\)", ".is_some()"), (r"\.rev\(\)", ""),
    (r"\bSome\(0\)", "Some(1)"), (r"\.negate\(\)", ""), (r"\bmin\(", "max("), (r"\bmax\(", "min("),
]


def ranges_of(prop):
    out = []
    for l in open(os.path.join(VERIF, "properties.jsonl")):
        p = json.loads(l)
        if p["id"] != prop:
            continue
        items = (p["anchors"].get("mechanism") or []) + (p["anchors"].get("state") or [])
        for m in items:
            w = m.get("where") or ""
            cur = None
            for part in re.split(r",\s*", w):
                mm = re.match(r"^(src/[\w/.]+):(\d+)(?:-(\d+))?$", part.strip())
                if mm:
                    cur = mm.group(1)
                    a = int(mm.group(2)); b = int(mm.group(3) or a + 25)
                    out.append((cur, a, b))
                else:
                    mm = re.match(r"^(\d+)(?:-(\d+))?$", part.strip())
                    if mm and cur:
                        a = int(mm.group(1)); b = int(mm.group(2) or a + 25)
                        out.append((cur, a, b))
    return out


def mutants(prop, repo):
    seen = set()
    for f, a, b in ranges_of(prop):
        path = os.path.join(repo, f)
        if not os.path.exists(path):
            continue
        lines = open(path).read().split("\n")
        # line numbers in the record refer to the pinned tree; widen a little for drift
        for i in range(max(0, a - 12), min(len(lines), b + 12)):
            ln = lines[i]
            code = ln.split("//")[0]
            if not code.strip() or code.strip().startswith(("#[", "///", "use ", "fn ", "pub fn", "struct ", "pub struct", "type ", "impl", "pub type", "enum ", "pub enum", "assert", "debug_assert")):
                continue
            if not f.endswith(".rs"):
                continue
            for pat, rep_ in OPS:
                for k, m in enumerate(re.finditer(pat, code)):
                    new = code[:m.start()] + rep_ + code[m.end():] + ln[len(code):]
                    key = (f, i, new)
                    if key in seen:
                        continue
                    seen.add(key)
                    yield {"prop": prop, "file": f, "line": i + 1, "old": ln.strip(), "new": new.strip(), "_new_full": new}


def work(args):
    mut, wid = args
    import facts, common, seeds
    os.environ["VERIF_SCRATCH_RUN"] = "1"
    ident = multiprocessing.current_process()._identity
    wid = ident[0] if ident else wid
    tdir = os.path.join(facts.CACHE, "target-w%d" % wid)
    base, dst = seeds.scratch_copy("/repo")
    res = dict((k, v) for k, v in mut.items() if not k.startswith("_"))
    try:
        p = os.path.join(dst, mut["file"])
        lines = open(p).read().split("\n")
        lines[mut["line"] - 1] = mut["_new_full"]
        open(p, "w").write("\n".join(lines))
        try:
            devnull = open(os.devnull, "w")
            old = sys.stderr
            sys.stderr = devnull
            try:
                path, _ = facts.ensure_facts(dst, quiet=True, target_dir=tdir)
            finally:
                sys.stderr = old
        except SystemExit:
            res["status"] = "does-not-build"
            return res
        db = facts.DB(path)
        db.repo = dst
        mod = importlib.import_module("props." + mut["prop"].lower())
        try:
            rep = mod.run(db, "quick")
            bad = [i for i in rep.instances if not i["ok"]]
            res["status"] = "detected" if bad else "missed"
            res["by"] = sorted(set(i["rule"] for i in bad))[:4]
        except (facts.MissingAnchor, common.Broken) as e:
            res["status"] = "cannot-decide"
            res["by"] = [str(e)[:120]]
        except Exception as e:
            res["status"] = "checker-crash"
            res["by"] = [repr(e)[:200]]
        try:
            os.remove(path)
        except OSError:
            pass
        return res
    finally:
        shutil.rmtree(base, ignore_errors=True)


def main():
    props = sys.argv[1].split(",")
    workers = int(sys.argv[sys.argv.index("--workers") + 1]) if "--workers" in sys.argv else 6
    mx = int(sys.argv[sys.argv.index("--max") + 1]) if "--max" in sys.argv else 10 ** 9
    out = sys.argv[sys.argv.index("--out") + 1] if "--out" in sys.argv else "mutsweep.jsonl"
    import facts
    facts.build_driver()
    todo = []
    for p in props:
        ms = list(mutants(p, "/repo"))
        # spread over the ranges deterministically
        step = max(1, len(ms) // mx) if mx < len(ms) else 1
        todo += ms[::step][:mx]
    print("mutants:", len(todo), flush=True)
    q = [(m, i % workers) for i, m in enumerate(todo)]
    # one process per worker id so that each cargo target dir is used by one process at a time
    buckets = [[x for x in q if x[1] == w] for w in range(workers)]
    with open(out, "a") as fo:
        with multiprocessing.Pool(workers) as pool:
            for res in pool.imap_unordered(_run_bucket_item, q, chunksize=1):
                fo.write(json.dumps(res) + "\n")
                fo.flush()
                print(res["status"], res["prop"], res["file"], res["line"], res["new"][:80], res.get("by"), flush=True)


def _run_bucket_item(a):
    return work(a)


if __name__ == "__main__":
    main()
